//! C10 (builders are total; acceptance implies safe use), C19 (corpus format), C20 (MeCab model conversion).
use crate::gen::*;
use crate::model::*;
use crate::oracles::*;
use crate::real::*;
use crate::report::Ctx;
use crate::rng::{hash_bytes, Rng};
use crate::tokprops::*;
use crate::trainprops::{csv_cells, ref_expand, split4};
use serde_json::json;
use std::collections::HashMap;
use vibrato::trainer::Corpus;
use vibrato::Tokenizer;

// ------------------------------------------------------------------------------------------
// strict reference parsers: accept a conservative subset of each format; `None` = "declines",
// which never produces a verdict by itself.

fn is_dec(s: &str) -> bool {
    !s.is_empty() && s.len() <= 9 && s.bytes().all(|b| b.is_ascii_digit())
}

pub fn strict_char_def(text: &str) -> Option<(Vec<Cat>, Vec<usize>, Vec<Range>)> {
    if text.contains('\r') {
        return None;
    }
    let mut cats: Vec<Cat> = vec![Cat { name: "DEFAULT".into(), invoke: false, group: false, length: 0 }];
    let mut defined = vec![false];
    let mut def_order: Vec<usize> = vec![];
    let mut raw_ranges: Vec<(u32, u32, Vec<String>)> = vec![];
    for line in text.split('\n') {
        let line = line.trim();
        if line.is_empty() || line.starts_with('#') {
            continue;
        }
        let cols: Vec<&str> = line.split_whitespace().collect();
        if line.starts_with("0x") {
            let r: Vec<&str> = cols[0].split("..").collect();
            if r.len() > 2 {
                return None;
            }
            let hex = |s: &str| -> Option<u32> {
                let h = s.strip_prefix("0x")?;
                if h.is_empty() || h.len() > 4 || !h.bytes().all(|b| b.is_ascii_hexdigit()) {
                    return None;
                }
                u32::from_str_radix(h, 16).ok()
            };
            let lo = hex(r[0])?;
            let hi = if r.len() == 2 { hex(r[1])? } else { lo };
            if lo > hi {
                return None;
            }
            let names: Vec<String> = cols[1..].iter().take_while(|c| !c.starts_with('#')).map(|c| c.to_string()).collect();
            if names.is_empty() {
                return None;
            }
            raw_ranges.push((lo, hi, names));
        } else {
            if cols.len() < 4 || (cols.len() > 4 && !cols[4].starts_with('#')) {
                return None;
            }
            if !(cols[1] == "0" || cols[1] == "1") || !(cols[2] == "0" || cols[2] == "1") || !is_dec(cols[3]) {
                return None;
            }
            let length: u32 = cols[3].parse().ok()?;
            if length > 15 {
                return None;
            }
            let c = Cat { name: cols[0].to_string(), invoke: cols[1] == "1", group: cols[2] == "1", length: length as u16 };
            let idx = match cats.iter().position(|x| x.name == c.name) {
                Some(i) => {
                    if defined[i] {
                        return None; // duplicate definition: decline
                    }
                    cats[i] = c;
                    i
                }
                None => {
                    cats.push(c);
                    defined.push(false);
                    cats.len() - 1
                }
            };
            defined[idx] = true;
            def_order.push(idx);
        }
    }
    if !defined[0] || cats.len() > 200 {
        return None;
    }
    let mut ranges = vec![];
    for (lo, hi, names) in raw_ranges {
        let mut cs = vec![];
        for n in names {
            let i = cats.iter().position(|c| c.name == n)?;
            if i >= 18 {
                return None; // does not fit the 18-bit category set: the builder must reject
            }
            cs.push(i);
        }
        ranges.push(Range { lo, hi, cats: cs });
    }
    Some((cats, def_order, ranges))
}

fn strict_rows(text: &str) -> Option<Vec<LexRow>> {
    if text.contains('\r') || text.contains('\0') {
        return None;
    }
    let mut rows = vec![];
    for line in text.split('\n') {
        if line.is_empty() {
            continue;
        }
        if line.matches('"').count() % 2 == 1 {
            return None;
        }
        let (f, rest) = split4(line)?;
        if !is_dec(&f[1]) || !is_dec(&f[2]) {
            return None;
        }
        let neg = f[3].strip_prefix('-').unwrap_or(&f[3]);
        if !is_dec(neg) {
            return None;
        }
        let (l, r, c): (u32, u32, i64) = (f[1].parse().ok()?, f[2].parse().ok()?, f[3].parse().ok()?);
        if l > 65535 || r > 65535 || c < i16::MIN as i64 || c > i16::MAX as i64 {
            return None;
        }
        // a quoted first field directly followed by text, or quotes inside the unquoted one: decline
        if !line.starts_with('"') && f[0].contains('"') {
            return None;
        }
        rows.push(LexRow { surface: f[0].clone(), l: l as u16, r: r as u16, cost: c as i16, feat: rest });
    }
    Some(rows)
}

fn strict_matrix(text: &str) -> Option<Conn> {
    if text.contains('\r') {
        return None;
    }
    let mut lines = text.split('\n');
    let h: Vec<&str> = lines.next()?.split(' ').collect();
    if h.len() != 2 || !is_dec(h[0]) || !is_dec(h[1]) {
        return None;
    }
    let (nr, nl): (usize, usize) = (h[0].parse().ok()?, h[1].parse().ok()?);
    if nr == 0 || nl == 0 || nr > 2000 || nl > 2000 {
        return None;
    }
    let mut cells = vec![0i16; nr * nl];
    for line in lines {
        if line.is_empty() {
            continue;
        }
        let c: Vec<&str> = line.split(' ').collect();
        if c.len() != 3 || !is_dec(c[0]) || !is_dec(c[1]) || !is_dec(c[2].strip_prefix('-').unwrap_or(c[2])) {
            return None;
        }
        let (r, l, v): (usize, usize, i64) = (c[0].parse().ok()?, c[1].parse().ok()?, c[2].parse().ok()?);
        if r >= nr || l >= nl || v < i16::MIN as i64 || v > i16::MAX as i64 {
            return None;
        }
        cells[l * nr + r] = v as i16;
    }
    Some(Conn::Matrix { nr, nl, cells })
}

fn strict_bigram(right: &str, left: &str, cost: &str, dual: bool) -> Option<Conn> {
    let side = |t: &str| -> Option<Vec<Vec<String>>> {
        if t.contains('\r') {
            return None;
        }
        let mut rows = vec![];
        let body = t.strip_suffix('\n').unwrap_or(t);
        if body.is_empty() {
            return Some(rows);
        }
        for (i, line) in body.split('\n').enumerate() {
            let (id, rest) = line.split_once('\t')?;
            if rest.contains('\t') || !is_dec(id) || id.parse::<usize>().ok()? != i + 1 || rest.matches('"').count() % 2 == 1 {
                return None;
            }
            rows.push(if rest.is_empty() { vec![] } else { csv_cells(rest)? });
        }
        Some(rows)
    };
    let (r, l) = (side(right)?, side(left)?);
    if r.iter().chain(l.iter()).all(|x| x.is_empty()) {
        return None;
    }
    let mut costs = vec![];
    let body = cost.strip_suffix('\n').unwrap_or(cost);
    if cost.contains('\r') {
        return None;
    }
    if !body.is_empty() {
        for line in body.split('\n') {
            let (f, c) = line.split_once('\t')?;
            let (a, b) = f.split_once('/')?;
            if c.contains('\t') || b.contains('/') || !is_dec(c.strip_prefix('-').unwrap_or(c)) || a == "*" || b == "*" {
                return None;
            }
            if costs.iter().any(|x: &(String, String, i32)| x.0 == a && x.1 == b) {
                return None;
            }
            costs.push((a.to_string(), b.to_string(), c.parse().ok()?));
        }
    }
    Some(Conn::Bigram { right: r, left: l, costs, dual })
}

#[derive(Clone, Debug)]
pub struct FileSet {
    pub lex: Vec<u8>,
    pub char_def: Vec<u8>,
    pub unk: Vec<u8>,
    pub conn: ConnTexts,
    pub user: Option<Vec<u8>>,
}

impl FileSet {
    fn from_case(case: &TokCase) -> FileSet {
        FileSet { lex: case.spec.lex_csv().into_bytes(), char_def: case.spec.char_def().into_bytes(), unk: case.spec.unk_def().into_bytes(), conn: conn_texts(&case.spec.conn), user: case.user.as_ref().map(|u| lex_csv(u).into_bytes()) }
    }
    fn json(&self) -> serde_json::Value {
        let s = |b: &Vec<u8>| String::from_utf8_lossy(b).chars().take(6000).collect::<String>();
        let conn = match &self.conn {
            ConnTexts::Matrix(m) => json!({"matrix.def": s(m)}),
            ConnTexts::Bigram { right, left, cost, dual } => json!({"bigram.right": s(right), "bigram.left": s(left), "bigram.cost": s(cost), "dual": dual}),
        };
        json!({"lex.csv": s(&self.lex), "char.def": s(&self.char_def), "unk.def": s(&self.unk), "connector": conn, "user.csv": self.user.as_ref().map(s)})
    }
    /// reference reading of the whole file set; None if any strict parser declines
    fn strict_spec(&self) -> Option<(DictSpec, Option<Vec<LexRow>>)> {
        let t = |b: &Vec<u8>| String::from_utf8(b.clone()).ok();
        let (cats, def_order, ranges) = strict_char_def(&t(&self.char_def)?)?;
        let lex = strict_rows(&t(&self.lex)?)?;
        let unk_rows = strict_rows(&t(&self.unk)?)?;
        let mut unk = vec![];
        for u in unk_rows {
            if u.surface.is_empty() {
                continue;
            }
            let cat = cats.iter().position(|c| c.name == u.surface)?;
            unk.push(UnkRow { cat, l: u.l, r: u.r, cost: u.cost, feat: u.feat });
        }
        let conn = match &self.conn {
            ConnTexts::Matrix(m) => strict_matrix(&t(m)?)?,
            ConnTexts::Bigram { right, left, cost, dual } => strict_bigram(&t(right)?, &t(left)?, &t(cost)?, *dual)?,
        };
        let (nr, nl) = conn.dims();
        if lex.iter().all(|r| r.surface.is_empty()) || lex.iter().any(|r| r.l as usize >= nl || r.r as usize >= nr) || unk.iter().any(|r| r.l as usize >= nl || r.r as usize >= nr) {
            return None;
        }
        if let Conn::Bigram { costs, right, left, .. } = &conn {
            // the dual connector's stated precondition, and total costs within i32
            let k = right.iter().chain(left.iter()).map(|r| r.len()).max().unwrap_or(0) as i64;
            if costs.iter().any(|c| (c.2 as i64).abs() * k.max(1) > 32767) {
                return None;
            }
        }
        let user = match &self.user {
            Some(u) => {
                let rows = strict_rows(&t(u)?)?;
                if rows.iter().any(|r| r.l as usize >= nl || r.r as usize >= nr) || rows.iter().all(|r| r.surface.is_empty()) {
                    return None;
                }
                Some(rows)
            }
            None => None,
        };
        Some((DictSpec { cats, def_order, ranges, unk, lex, conn }, user))
    }
}

const NASTY: &[&str] = &["", "0", "-1", "1", "2", "3", "4", "5", "6", "7", "8", "15", "16", "17", "18", "19", "255", "256", "32767", "32768", "-32768", "-32769", "65534", "65535", "65536", "65537", "131072", "4294967296", "99999999999999999999", "abc", "1e3", "+1", " 1", "1 ", "0x10", "NOPE", "DEFAULT", "SPACE", "*", "\"", "\"\"", "a,b", "0x0041", "0x0041..0x0040", "0x3041..0", "0x3041..あ", "0x41..", "..0x41", "0x", "0x..0x", "0x41...0x42", "0x10000", "0xFFFF..0x10000", "0xZZ", "#", "1.5", "-0", "００"];

fn mutate_text(rng: &mut Rng, data: &[u8], seps: &[char]) -> (Vec<u8>, String) {
    let text = String::from_utf8_lossy(data).to_string();
    let mut lines: Vec<String> = text.split('\n').map(|s| s.to_string()).collect();
    let had_final_nl = text.ends_with('\n');
    if had_final_nl {
        lines.pop();
    }
    let join = |lines: &Vec<String>, nl: bool| -> Vec<u8> {
        let mut s = lines.join("\n");
        if nl && !lines.is_empty() {
            s.push('\n');
        }
        s.into_bytes()
    };
    let nlines = lines.len().max(1);
    match rng.below(16) {
        0 => (vec![], "empty file".into()),
        1 => (b"# only a comment\n".to_vec(), "comment-only file".into()),
        2 if !lines.is_empty() => {
            let i = rng.below(nlines);
            lines.remove(i);
            (join(&lines, had_final_nl), format!("line {i} dropped"))
        }
        3 if !lines.is_empty() => {
            let i = rng.below(nlines);
            let l = lines[i].clone();
            lines.insert(i, l);
            (join(&lines, had_final_nl), format!("line {i} duplicated"))
        }
        4 if lines.len() >= 2 => {
            let (i, j) = (rng.below(nlines), rng.below(nlines));
            lines.swap(i, j);
            (join(&lines, had_final_nl), format!("lines {i} and {j} swapped"))
        }
        5 => (join(&lines, !had_final_nl), "final newline toggled".into()),
        6 if !data.is_empty() => {
            // cut off at a field boundary of the last line, or at a random byte
            let mut d = data.to_vec();
            if rng.chance(0.6) {
                let last_start = text.trim_end_matches('\n').rfind('\n').map(|p| p + 1).unwrap_or(0);
                let bounds: Vec<usize> = text[last_start..].char_indices().filter(|(_, c)| seps.contains(c)).map(|(i, _)| last_start + i).collect();
                if !bounds.is_empty() {
                    let b = *rng.pick(&bounds) + if rng.chance(0.5) { 1 } else { 0 };
                    d.truncate(b);
                    return (d, format!("cut off at byte {b} (field boundary of the last line)"));
                }
            }
            let b = rng.below(d.len());
            d.truncate(b);
            (d, format!("cut off at byte {b}"))
        }
        7 if !data.is_empty() => {
            let mut d = data.to_vec();
            let i = rng.below(d.len());
            let b = *rng.pick(&[0u8, 0xFF, b'"', b',', b'\r', b'\n', b'\t', b' ', b'/', b'#', 0xE3, b'-']);
            if rng.chance(0.5) {
                d[i] = b;
                (d, format!("byte {i} replaced by 0x{b:02X}"))
            } else {
                d.insert(i, b);
                (d, format!("byte 0x{b:02X} inserted at {i}"))
            }
        }
        _ if !lines.is_empty() => {
            // field-level edit of one line
            let i = rng.below(nlines);
            let sep = seps.iter().cloned().find(|s| lines[i].contains(*s)).unwrap_or(seps[0]);
            let mut f: Vec<String> = lines[i].split(sep).map(|s| s.to_string()).collect();
            let j = rng.below(f.len());
            let what = match rng.below(5) {
                3 if rng.chance(0.15) => {
                    // a field longer than the 4096-byte buffers of the CSV readers
                    let unit = *rng.pick(&["x", "あ", "x,", "\"\""]);
                    let n = (4000 + rng.below(1200)) / unit.len();
                    let v = if unit == "x," { format!("\"{}\"", unit.repeat(n)) } else { unit.repeat(n) };
                    let w = format!("field {j} of line {i} replaced by {} bytes of {:?}", v.len(), unit);
                    f[j] = v;
                    w
                }
                4 if f[j].trim().parse::<i64>().is_ok() => {
                    // the neighbours of a number: one past the largest id, one more cell than declared, ...
                    let n: i64 = f[j].trim().parse().unwrap();
                    let v = (n + [1i64, -1, 2, 3][rng.below(4)]).to_string();
                    let w = format!("field {j} of line {i} changed from {n} to {v}");
                    f[j] = v;
                    w
                }
                0 => {
                    f.remove(j);
                    format!("field {j} of line {i} dropped")
                }
                1 => {
                    let x = f[j].clone();
                    f.insert(j, x);
                    format!("field {j} of line {i} duplicated")
                }
                _ => {
                    let v = rng.pick(NASTY).to_string();
                    let w = format!("field {j} of line {i} set to {v:?}");
                    f[j] = v;
                    w
                }
            };
            lines[i] = f.join(&sep.to_string());
            (join(&lines, had_final_nl), what)
        }
        _ => (data.to_vec(), "unchanged".into()),
    }
}

fn special_char_def(rng: &mut Rng) -> (Vec<u8>, String) {
    match rng.below(8) {
        0 => {
            // many categories, one of the later ones assigned to a character
            let n = *rng.pick(&[18usize, 19, 20, 22, 33, 40, 257, 300]);
            let mut s = String::from("DEFAULT 0 1 0\n");
            for i in 1..n {
                s += &format!("C{i} {} {} {}\n", i % 2, (i / 2) % 2, i % 4);
            }
            let k = *rng.pick(&[17usize, 18, 19, 21, n - 1]).min(&(n - 1));
            s += &format!("0x0061..0x0063 C{k}\n");
            if rng.chance(0.5) {
                s += &format!("0x0064 C1 C{k}\n");
            }
            (s.into_bytes(), format!("{n} categories, C{k} assigned to a..c"))
        }
        1 => (format!("DEFAULT 0 1 {}\nA 1 1 {}\n0x0061 A\n", rng.pick(&[0, 15, 16, 17, 255, 256, 65535, 65536]), rng.pick(&[0, 15, 16, 300])).into_bytes(), "length values around the 4-bit limit".into()),
        2 => (b"DEFAULT 0 1 0\nA 1 1 2\n0x0061 A NOPE\n".to_vec(), "range line whose second category is undefined".into()),
        3 => (b"DEFAULT 0 1 0\nA 1 1 2\n0x0061 # A\n".to_vec(), "range line whose categories are commented out".into()),
        4 => (b"DEFAULT 0 1 0\nA 1 1 2\n0x0061..0x0060 A\n".to_vec(), "descending range".into()),
        5 => (b"DEFAULT 0 1 0\nA 1 1 2\n0xFFFF..0x10000 A\n0x10000 A\n".to_vec(), "range beyond the BMP".into()),
        6 => (b"A 1 1 2\n0x0061 A\n".to_vec(), "no DEFAULT category".into()),
        _ => (b"DEFAULT 0 1 0\nDEFAULT 1 0 3\nA 1 1 2\nA 0 0 1\n0x0061 A DEFAULT A\n".to_vec(), "categories defined twice".into()),
    }
}

fn adversarial_sentences(rng: &mut Rng, spec_ranges: &[(u32, u32)]) -> Vec<String> {
    let mut v: Vec<String> = vec![];
    let mut chars: Vec<char> = ALPHA.to_vec();
    for &(lo, hi) in spec_ranges {
        for c in [lo.saturating_sub(1), lo, hi, hi + 1] {
            if let Some(ch) = char::from_u32(c) {
                if ch != '\0' {
                    chars.push(ch);
                }
            }
        }
    }
    chars.extend(['a', 'b', 'c', 'd', 'e', '\u{FFFF}', '\u{10000}', '\u{10FFFF}', '\u{1}']);
    for &c in &chars {
        v.push(c.to_string());
    }
    for _ in 0..10 {
        let n = 1 + rng.below(8);
        v.push((0..n).map(|_| *rng.pick(&chars)).collect());
    }
    let c = *rng.pick(&chars);
    v.push(std::iter::repeat(c).take(40).collect());
    v.push(String::new());
    v
}

pub fn c10_case(ctx: &mut Ctx, rng: &mut Rng) {
    // seed file set: a generated dictionary, or the bundled resources
    let cfg = GenCfg { covered: rng.chance(0.9), ..Default::default() };
    let case = gen_tokcase(rng, &cfg, 0, false);
    let mut fs = if rng.chance(0.1) {
        let rd = |n: &str| std::fs::read(format!("/repo/vibrato/src/tests/resources/{n}")).unwrap_or_default();
        ctx.bucket("seed_bundled_resources");
        FileSet { lex: rd("lex.csv"), char_def: rd("char.def"), unk: rd("unk.def"), conn: ConnTexts::Matrix(rd("matrix.def")), user: Some(rd("user.csv")) }
    } else {
        FileSet::from_case(&case)
    };
    if fs.user.is_none() && rng.chance(0.5) {
        fs.user = Some(lex_csv(&gen_user(rng, &case.spec, &cfg)).into_bytes());
    }
    // one edit of one file
    let which = rng.below(7);
    let what: String;
    match which {
        0 => {
            let (d, w) = mutate_text(rng, &fs.lex, &[',']);
            fs.lex = d;
            what = format!("lex.csv: {w}");
        }
        1 => {
            let (d, w) = if rng.chance(0.35) { special_char_def(rng) } else { mutate_text(rng, &fs.char_def, &[' ']) };
            fs.char_def = d;
            what = format!("char.def: {w}");
        }
        2 => {
            let (d, w) = mutate_text(rng, &fs.unk, &[',']);
            fs.unk = d;
            what = format!("unk.def: {w}");
        }
        3 | 4 => {
            what = match &mut fs.conn {
                ConnTexts::Matrix(m) => {
                    let (d, w) = mutate_text(rng, m, &[' ']);
                    *m = d;
                    format!("matrix.def: {w}")
                }
                ConnTexts::Bigram { right, left, cost, .. } if rng.chance(0.15) => {
                    // every row of one or both side files loses its features (`id<TAB>` rows)
                    let strip = |d: &Vec<u8>| -> Vec<u8> { String::from_utf8_lossy(d).lines().map(|l| format!("{}\t\n", l.split('\t').next().unwrap_or(""))).collect::<String>().into_bytes() };
                    let k = rng.below(3);
                    if k != 1 {
                        *right = strip(right);
                    }
                    if k != 0 {
                        *left = strip(left);
                    }
                    if rng.chance(0.5) {
                        cost.clear();
                    }
                    format!("bigram side files: all rows made feature-less (variant {k})")
                }
                ConnTexts::Bigram { right, left, cost, .. } => match rng.below(3) {
                    0 => {
                        let (d, w) = mutate_text(rng, right, &['\t', ',']);
                        *right = d;
                        format!("bigram.right: {w}")
                    }
                    1 => {
                        let (d, w) = mutate_text(rng, left, &['\t', ',']);
                        *left = d;
                        format!("bigram.left: {w}")
                    }
                    _ => {
                        let (d, w) = mutate_text(rng, cost, &['\t', '/']);
                        *cost = d;
                        format!("bigram.cost: {w}")
                    }
                },
            };
        }
        5 => {
            let u = fs.user.clone().unwrap_or_else(|| b"a,0,0,1,U\n".to_vec());
            let (d, w) = mutate_text(rng, &u, &[',']);
            fs.user = Some(d);
            what = format!("user.csv: {w}");
        }
        _ => what = "no file edited (control)".into(),
    }
    let cj = |d: String| json!({"edit": what, "files": fs.json(), "detail": d});
    // a reader that fails with an I/O error after k bytes must surface as Err (never Ok, never a panic)
    if rng.chance(0.08) {
        use crate::dictprops::ChunkReader;
        use vibrato::SystemDictionaryBuilder;
        let target = rng.below(4);
        let mk = |data: &'_ [u8], i: usize, k: usize| ChunkReader { data: unsafe { std::mem::transmute::<&[u8], &'static [u8]>(data) }, pos: 0, rng: Rng(k as u64 + 1), mode: 1, fail_at: if i == target { Some(k) } else { None } };
        let conn_bytes: Vec<&Vec<u8>> = match &fs.conn {
            ConnTexts::Matrix(m) => vec![m],
            ConnTexts::Bigram { right, left, cost, .. } => vec![right, left, cost],
        };
        let lens = [fs.lex.len(), conn_bytes[0].len(), fs.char_def.len(), fs.unk.len()];
        let k = if lens[target] == 0 { 0 } else { rng.below(lens[target]) };
        ctx.eval();
        let r = guarded(|| match &fs.conn {
            ConnTexts::Matrix(m) => SystemDictionaryBuilder::from_readers(mk(&fs.lex, 0, k), mk(m, 1, k), mk(&fs.char_def, 2, k), mk(&fs.unk, 3, k)).is_ok(),
            ConnTexts::Bigram { right, left, cost, dual } => SystemDictionaryBuilder::from_readers_with_bigram_info(mk(&fs.lex, 0, k), mk(right, 1, k), mk(left, 9, k), mk(cost, 9, k), mk(&fs.char_def, 2, k), mk(&fs.unk, 3, k), *dual).is_ok(),
        });
        match r {
            Ok(false) => ctx.bucket("reader_io_error_surfaced_as_err"),
            Ok(true) => ctx.violation("reader_io_error_swallowed", "C10:reader_io_error_swallowed", format!("input #{target} (0 lex, 1 connector, 2 char.def, 3 unk.def) fails with an I/O error after {k} bytes, yet a dictionary was returned"), cj(String::new())),
            Err(p) => ctx.violation("builder_panicked_on_io_error", &format!("C10:io:{}", panic_class(&p)), p, cj(String::new())),
        }
    }
    ctx.eval();
    let outcome = build_from_texts(&fs.lex, &fs.char_def, &fs.unk, &fs.conn);
    let d = match outcome {
        BuildOutcome::Ok(d) => d,
        BuildOutcome::Err(_) => {
            ctx.bucket("builder_returned_err");
            ctx.bucket(&format!("err_{}", what.split(':').next().unwrap_or("?")));
            return;
        }
        BuildOutcome::Panic(p) => {
            ctx.violation("builder_panicked", &format!("C10:builder:{}", panic_class(&p)), format!("{what}: {p}"), cj(String::new()));
            return;
        }
    };
    ctx.bucket("builder_returned_dictionary");
    // user lexicon (possibly malformed) and a mapping sequence on the accepted dictionary
    let mut strict = fs.strict_spec();
    let mut d = d;
    if let Some(u) = &fs.user {
        let u2 = u.clone();
        // the dictionary is consumed by the call: keep a copy through write/read
        let backup = write_dict(&d).ok().map(|x| x.0);
        match guarded(move || d.reset_user_lexicon_from_reader(Some(u2.as_slice())).map_err(|e| e.to_string())) {
            Ok(Ok(d2)) => {
                d = d2;
                ctx.bucket("user_lexicon_accepted");
            }
            Ok(Err(_)) => {
                ctx.bucket("user_lexicon_rejected");
                d = match backup.and_then(|b| read_dict(&b).ok()).and_then(|r| r.ok()) {
                    Some(d) => d,
                    None => return,
                };
                strict = strict.map(|(s, _)| (s, None));
                if let Some(f) = fs.user.as_ref() {
                    let _ = f;
                }
            }
            Err(p) => {
                ctx.violation("user_lexicon_loader_panicked", &format!("C10:user:{}", panic_class(&p)), format!("{what}: {p}"), cj(String::new()));
                return;
            }
        }
    }
    let user_loaded = vibrato::verif::has_user_and_mapper(&d).0;
    if !user_loaded {
        strict = strict.map(|(s, _)| (s, None));
    }
    // arbitrary mapping sequences never panic
    if rng.chance(0.3) {
        let (nr, nl) = vibrato::verif::conn_dims(&d);
        let mk = |rng: &mut Rng, n: usize| -> Vec<u16> {
            let len = match rng.below(4) {
                0 => n.saturating_sub(1),
                1 => rng.below(n + 2),
                _ => n.saturating_sub(1),
            };
            let mut v: Vec<u16> = (1..=len as u16).collect();
            rng.shuffle(&mut v);
            if rng.chance(0.4) && !v.is_empty() {
                let i = rng.below(v.len());
                v[i] = *rng.pick(&[0u16, 1, 65535, n as u16, (n + 1) as u16]);
            }
            v
        };
        let backup = write_dict(&d).ok().map(|x| x.0);
        let restore = |b: &Option<Vec<u8>>| b.as_ref().and_then(|b| read_dict(b).ok()).and_then(|r| r.ok());
        // up to three mappings one after the other (an accepted one is followed by the next on its result)
        let mut cur = Some(d);
        let mut hist: Vec<String> = vec![];
        let mut accepted = 0;
        for _ in 0..1 + rng.below(3) {
            let (lm, rm) = (mk(rng, nl), mk(rng, nr));
            hist.push(format!("lmap {:?} rmap {:?}", lm, rm));
            ctx.eval();
            let dd = match cur.take().or_else(|| restore(&backup)) {
                Some(d) => d,
                None => return,
            };
            match guarded(move || d_map(dd, lm, rm)) {
                Ok(Some(d2)) => {
                    accepted += 1;
                    cur = Some(d2);
                    if rng.chance(0.5) {
                        // a user CSV on the mapped dictionary (the case's own, possibly edited one, or a row whose
                        // id lies just outside the connector): accepted or rejected, never a panic
                        let csv: Vec<u8> = match &fs.user {
                            Some(u) if rng.chance(0.5) => u.clone(),
                            _ => {
                                if rng.chance(0.5) {
                                    format!("zz,{},{},1,X\n", nl + rng.below(3), rng.below(nr)).into_bytes()
                                } else {
                                    format!("zz,{},{},1,X\n", rng.below(nl), nr + rng.below(3)).into_bytes()
                                }
                            }
                        };
                        hist.push(format!("user csv {:?}", String::from_utf8_lossy(&csv)));
                        let dd = cur.take().unwrap();
                        ctx.eval();
                        match guarded(move || dd.reset_user_lexicon_from_reader(Some(csv.as_slice())).ok()) {
                            Ok(Some(d3)) => cur = Some(d3),
                            Ok(None) => ctx.bucket("user_csv_rejected_on_mapped_dictionary"),
                            Err(p) => {
                                ctx.violation("user_lexicon_loader_panicked", &format!("C10:user_after_map:{}", panic_class(&p)), format!("history {:?}: {p}", hist), cj(String::new()));
                                return;
                            }
                        }
                    }
                }
                Ok(None) => {}
                Err(p) => {
                    ctx.violation("mapping_panicked", &format!("C10:map:{}", panic_class(&p)), format!("mappings {:?}: {p}", hist), cj(String::new()));
                    return;
                }
            }
        }
        ctx.bucket("mapping_sequence_no_panic");
        if accepted >= 2 {
            ctx.bucket("two_or_more_accepted_mappings_in_a_row");
        }
        d = match restore(&backup) {
            Some(d) => d,
            None => return,
        };
    }
    // ---- acceptance implies safe use
    let (nr, nl) = vibrato::verif::conn_dims(&d);
    let cats = vibrato::verif::categories(&d);
    if let Some((spec, _)) = &strict {
        ctx.bucket("reference_parsers_accept_too");
        // no silently mis-assigned categories: the whole BMP for small tables, probes otherwise
        let mut probe: Vec<char> = ALPHA.to_vec();
        for r in &spec.ranges {
            for c in [r.lo.saturating_sub(1), r.lo, r.hi, r.hi + 1] {
                if let Some(ch) = char::from_u32(c) {
                    probe.push(ch);
                }
            }
        }
        if ctx.index % 20 == 0 {
            probe.extend((1u32..=0xFFFF).filter_map(char::from_u32));
        }
        let covers_zero = spec.ranges.iter().any(|r| r.lo == 0);
        for &ch in &probe {
            if (ch as u32) > 0xFFFF && covers_zero {
                continue; // listed known finding of C03
            }
            if let Err((check, detail)) = check_char_info(spec, &d, &cats, ch) {
                ctx.violation("categories_silently_misassigned", &format!("C10:{check}"), format!("{what}: {detail}"), cj(String::new()));
                return;
            }
        }
        ctx.total("char_table_entries_compared", probe.len() as u64);
    } else {
        ctx.bucket("reference_parsers_decline");
    }
    let ranges: Vec<(u32, u32)> = strict.as_ref().map(|(s, _)| s.ranges.iter().map(|r| (r.lo, r.hi)).collect()).unwrap_or_default();
    let sentences = adversarial_sentences(rng, &ranges);
    let opts = Opts { ignore_space: false, mgl: if rng.chance(0.5) { 0 } else { 2 } };
    let tok = match make_tokenizer(d, opts) {
        Ok(t) => t,
        Err(_) => return,
    };
    let mut w = tok.new_worker();
    let refd = strict.as_ref().map(|(s, u)| RefDict::new(s, u.as_deref()));
    for s in &sentences {
        ctx.eval();
        let chars: Vec<char> = s.chars().collect();
        let rout = refd.as_ref().map(|r| r.analyze(&chars, opts));
        match tokenize(&mut w, s) {
            Ok(toks) => {
                if let Some(t) = toks.iter().find(|t| t.l as usize >= nl || t.r as usize >= nr) {
                    ctx.violation("connection_id_outside_connector", "C10:connection_id_outside_connector", format!("{what}: token {:?} has ids l{} r{} but the connector is {nr}x{nl}", t.surface, t.l, t.r), cj(format!("sentence {s:?}")));
                    return;
                }
                let cat: String = toks.iter().map(|t| t.surface.as_str()).collect();
                if cat != *s {
                    ctx.violation("accepted_dictionary_does_not_cover_input", "C10:accepted_dictionary_does_not_cover_input", format!("{what}: {s:?} -> {:?}", toks_brief(&toks)), cj(String::new()));
                    return;
                }
                if let (Some((spec, user)), Some(rout), Some(refd)) = (&strict, &rout, &refd) {
                    // the accepted dictionary means what its files say
                    let covers_zero = spec.ranges.iter().any(|r| r.lo == 0);
                    if covers_zero && chars.iter().any(|&c| (c as u32) > 0xFFFF) {
                        continue;
                    }
                    let r = check_partition(spec, user.as_deref(), opts, s, &toks, tok.dictionary()).and_then(|_| if rout.total.is_some() { check_blackbox_opt(refd, rout, &toks, chars.len()) } else { Ok(()) });
                    if let Err((check, detail)) = r {
                        ctx.violation("accepted_dictionary_disagrees_with_its_files", &format!("C10:semantic:{check}"), format!("{what}: {detail} | tokens {:?}", toks_brief(&toks)), cj(format!("sentence {s:?}")));
                        return;
                    }
                    ctx.bucket("accepted_dictionary_checked_against_reference_reading");
                }
            }
            Err(p) => {
                let uncovered = rout.as_ref().map_or(false, |r| r.total.is_none() && r.dead_position.is_some());
                if uncovered {
                    ctx.bucket("uncovered_category_panic");
                    ctx.violation("accepted_dictionary_panics", "C10:tokenize:panic:reference-lattice-disconnected-by-uncovered-category", format!("{what}: {p}; a reachable position has no candidate because its category has no unk.def entry"), cj(format!("sentence {s:?}")));
                } else if strict.is_none() {
                    // the files are outside the reference parsers' subset: the panic cannot be attributed
                    // to the known uncovered-category finding or told apart from it; probe single characters
                    let single_char_panics = chars.iter().any(|c| {
                        let mut w2 = tok.new_worker();
                        tokenize(&mut w2, &c.to_string()).is_err()
                    });
                    if single_char_panics && p.contains("lattice.rs") {
                        ctx.bucket("unattributable_panic_with_single_character_cause");
                        ctx.violation("accepted_dictionary_panics", "C10:tokenize:panic:reference-lattice-disconnected-by-uncovered-category", format!("{what}: {p}; (reference parsers decline these files; a single character of the sentence already has no candidate)"), cj(format!("sentence {s:?}")));
                    } else {
                        ctx.violation("accepted_dictionary_panics", &format!("C10:tokenize:{}", panic_class(&p)), format!("{what}: {p}"), cj(format!("sentence {s:?}")));
                    }
                } else {
                    ctx.violation("accepted_dictionary_panics", &format!("C10:tokenize:{}", panic_class(&p)), format!("{what}: {p}"), cj(format!("sentence {s:?}")));
                }
                w = tok.new_worker();
            }
        }
    }
    ctx.distinct(hash_bytes(cj(String::new()).to_string().as_bytes()));
    if ctx.want_sample() && which < 6 {
        ctx.sample(json!({"edit": what, "outcome": "dictionary accepted", "sentences_tokenized": sentences.len(), "reference_parsers_accept": strict.is_some()}));
    }
}

// ---------------------------------------------------------------- C19

type Sent = Vec<(String, String)>;

fn corpus_text(c: &[Sent]) -> String {
    let mut s = String::new();
    for sent in c {
        for (a, b) in sent {
            s += &format!("{a}\t{b}\n");
        }
        s += "EOS\n";
    }
    s
}

fn examples_of(c: &Corpus) -> Vec<Sent> {
    c.iter().map(|e| e.tokens().iter().map(|w| (w.surface().to_string(), w.feature().to_string())).collect()).collect()
}

fn d_map(d: vibrato::dictionary::Dictionary, lm: Vec<u16>, rm: Vec<u16>) -> Option<vibrato::dictionary::Dictionary> {
    d.map_connection_ids_from_iter(lm, rm).ok()
}

pub fn c19_case(ctx: &mut Ctx, rng: &mut Rng, xdir: &str) {
    let cli = std::env::var("VERIF_CLI_DIR").unwrap_or_default();
    if ctx.index % 25 == 0 && !cli.is_empty() && !xdir.is_empty() {
        c19_cli(ctx, rng, &cli, xdir);
        return;
    }
    if ctx.index % 25 == 7 {
        crate::trainprops::c19_feed_trainer(ctx, rng);
        return;
    }
    let surf = ["EOS", "a", "東京", " ", "x y", "EOS2", ",", "\"q\"", "é", "𠮷", "E", "OS", "1", "\u{FEFF}", "\u{FEFF}a", "a", "東京"];
    let feat = ["EOS", "名詞,一般", "", " ", "a,b,\"c,d\"", "*", "助詞,ニ", "f\u{3000}g"];
    let n = rng.below(8);
    let mut corpus: Vec<Sent> = vec![];
    for _ in 0..n {
        let k = if rng.chance(0.2) { 0 } else { 1 + rng.below(5) };
        corpus.push((0..k).map(|_| (rng.pick(&surf).to_string(), rng.pick(&feat).to_string())).collect());
    }
    if rng.chance(0.03) {
        // a token whose surface (or feature) is 65536 bytes or longer (a grouped run of a long input)
        let long: String = if rng.chance(0.5) { "a".repeat(65_536 + rng.below(40)) } else { "あ".repeat(21_846 + rng.below(40)) };
        let tok = if rng.chance(0.7) { (long, rng.pick(&feat).to_string()) } else { ("x".to_string(), long) };
        let at = rng.below(corpus.len() + 1);
        corpus.insert(at, vec![("b".to_string(), "F".to_string()), tok, ("c".to_string(), "G".to_string())]);
        ctx.bucket("token_of_65536_bytes_or_more");
    }
    if corpus.first().and_then(|s| s.first()).map_or(false, |t| t.0.starts_with('\u{FEFF}')) {
        ctx.bucket("first_line_starts_with_U+FEFF");
    }
    let text = corpus_text(&corpus);
    let want: Vec<Sent> = corpus.iter().filter(|s| !s.is_empty()).cloned().collect();
    ctx.eval();
    let parsed = match guarded(|| Corpus::from_reader(text.as_bytes()).map_err(|e| e.to_string())) {
        Ok(Ok(c)) => c,
        Ok(Err(e)) => {
            ctx.violation("well_formed_corpus_rejected", "C19:well_formed_corpus_rejected", e, json!({"corpus": text}));
            return;
        }
        Err(p) => {
            ctx.violation("corpus_parser_panicked", &format!("C19:{}", panic_class(&p)), p, json!({"corpus": text}));
            return;
        }
    };
    let got = examples_of(&parsed);
    if got != want {
        ctx.violation("parsed_examples_differ", "C19:parsed_examples_differ", format!("parsed {:?}\n expected {:?}", got, want), json!({"corpus": text}));
        return;
    }
    if corpus.iter().any(|s| s.is_empty()) {
        ctx.bucket("sentence_without_tokens_dropped");
    }
    if corpus.iter().flatten().any(|t| t.0 == "EOS") {
        ctx.bucket("token_whose_surface_is_EOS");
    }
    // write back: canonical text of the kept sentences; re-parsing gives the same examples
    let mut out: Vec<u8> = vec![];
    for e in parsed.iter() {
        if let Err(e) = guarded(|| e.write(&mut out).map_err(|e| e.to_string())).and_then(|r| r) {
            ctx.violation("example_write_failed", "C19:example_write_failed", e, json!({"corpus": text}));
            return;
        }
    }
    let canon = corpus_text(&want);
    if out != canon.as_bytes() {
        ctx.violation("written_corpus_differs", "C19:written_corpus_differs", format!("written {:?}\n expected {:?}", String::from_utf8_lossy(&out), canon), json!({"corpus": text}));
        return;
    }
    match guarded(|| Corpus::from_reader(out.as_slice()).map(|c| examples_of(&c)).map_err(|e| e.to_string())) {
        Ok(Ok(again)) if again == want => {}
        other => {
            ctx.violation("reparse_differs", "C19:reparse_differs", format!("{:?}", other.map(|r| r.map(|v| v.len()))), json!({"corpus": text}));
            return;
        }
    }
    // malformed lines are reported as errors
    if !want.is_empty() {
        let bad_lines = ["no tab and not EOS", "two\ttabs\there", "", "a\tb\tc\td", "EOS\t", "EOS "];
        let bad = rng.pick(&bad_lines).to_string();
        let mut lines: Vec<&str> = canon.lines().collect();
        let pos = rng.below(lines.len() + 1);
        lines.insert(pos, &bad);
        let t2 = lines.join("\n") + "\n";
        ctx.eval();
        // "EOS\t" is a token line with an empty feature, "EOS " a line without tab: only the latter is malformed
        let expect_err = bad != "EOS\t";
        match guarded(|| Corpus::from_reader(t2.as_bytes()).is_err()) {
            Ok(is_err) => {
                if is_err != expect_err && expect_err {
                    ctx.violation("malformed_line_accepted", "C19:malformed_line_accepted", format!("line {:?} inserted at {pos} was not reported as an error", bad), json!({"corpus": t2}));
                    return;
                }
                if is_err {
                    ctx.bucket("malformed_line_rejected");
                }
            }
            Err(p) => {
                ctx.violation("corpus_parser_panicked", &format!("C19:{}", panic_class(&p)), p, json!({"corpus": t2}));
                return;
            }
        }
    }
    // a line that is not UTF-8 is malformed too
    if !want.is_empty() && rng.chance(0.3) {
        let mut bytes = canon.clone().into_bytes();
        let lines_at: Vec<usize> = std::iter::once(0).chain(bytes.iter().enumerate().filter(|(_, &b)| b == b'\n').map(|(i, _)| i + 1)).collect();
        let at = lines_at[rng.below(lines_at.len())];
        let bad: &[u8] = *rng.pick(&[&b"\xffx\tf\n"[..], &b"a\t\xe3\x81\n"[..], &b"\xa4\xa2\t\xcc\xbe\xbb\xec\n"[..]]);
        bytes.splice(at..at, bad.iter().cloned());
        ctx.eval();
        match guarded(|| Corpus::from_reader(bytes.as_slice()).is_err()) {
            Ok(true) => ctx.bucket("non_utf8_line_rejected"),
            Ok(false) => {
                ctx.violation("malformed_line_accepted", "C19:non_utf8_line_accepted", format!("a line that is not valid UTF-8 ({:?}) inserted at byte {at} was not reported as an error", bad), json!({"corpus_lossy": String::from_utf8_lossy(&bytes)}));
                return;
            }
            Err(p) => {
                ctx.violation("corpus_parser_panicked", &format!("C19:{}", panic_class(&p)), p, json!({"corpus_lossy": String::from_utf8_lossy(&bytes)}));
                return;
            }
        }
    }
    if want.len() >= 1 {
        ctx.distinct(hash_bytes(text.as_bytes()));
    }
    if ctx.want_sample() && want.len() >= 2 {
        ctx.sample(json!({"corpus": text}));
    }
}

fn c19_cli(ctx: &mut Ctx, rng: &mut Rng, cli: &str, xdir: &str) {
    use std::process::{Command, Stdio};
    let cfg = GenCfg { covered: true, ..Default::default() };
    let mut case = gen_tokcase(rng, &cfg, 30, false);
    case.user = None;
    // features ending with an empty cell (a trailing comma, a trailing `""`), as MeCab dictionaries have them
    for r in case.spec.lex.iter_mut() {
        if rng.chance(0.2) {
            r.feat.push_str(if rng.chance(0.5) { "," } else { ",\"\"" });
        }
    }
    for r in case.spec.unk.iter_mut() {
        if rng.chance(0.2) {
            r.feat.push(',');
        }
    }
    let o = case.opts[0];
    let dir = format!("{xdir}/cli-{}-{}", ctx.shard, ctx.index);
    let _ = std::fs::create_dir_all(&dir);
    let w = |n: &str, d: &[u8]| std::fs::write(format!("{dir}/{n}"), d).is_ok();
    let fs = FileSet::from_case(&case);
    w("lex.csv", &fs.lex);
    w("char.def", &fs.char_def);
    w("unk.def", &fs.unk);
    let mut cmd = Command::new(format!("{cli}/compile"));
    cmd.args(["-l", &format!("{dir}/lex.csv"), "-c", &format!("{dir}/char.def"), "-u", &format!("{dir}/unk.def"), "-o", &format!("{dir}/sys.dic.zst")]);
    match &fs.conn {
        ConnTexts::Matrix(m) => {
            w("matrix.def", m);
            cmd.args(["-m", &format!("{dir}/matrix.def")]);
        }
        ConnTexts::Bigram { right, left, cost, dual } => {
            w("bigram.right", right);
            w("bigram.left", left);
            w("bigram.cost", cost);
            cmd.args(["--bigram-right-in", &format!("{dir}/bigram.right"), "--bigram-left-in", &format!("{dir}/bigram.left"), "--bigram-cost-in", &format!("{dir}/bigram.cost")]);
            if *dual {
                cmd.arg("--dual-connector");
            }
        }
    }
    let cj = |d: String| json!({"files": case.texts(), "opts": o, "detail": d});
    let st = cmd.stdout(Stdio::null()).stderr(Stdio::null()).status();
    if !st.map_or(false, |s| s.success()) {
        ctx.note("compile CLI failed".into());
        ctx.bucket("cli_compile_failed");
        return;
    }
    // input lines without tab / line break; includes the line "EOS", empty lines, spaces only
    let mut lines: Vec<String> = case.sentences.iter().map(|s| s.replace(['\t', '\n', '\r'], "")).collect();
    lines.push("EOS".into());
    lines.push(String::new());
    lines.push("   ".into());
    if rng.chance(0.5) {
        // U+FEFF is a character like any other, also at the very start of the input
        lines[0] = format!("{}{}", '\u{FEFF}', lines[0]);
    }
    // half of the inputs end without a line feed after their last (non-empty) line
    let no_final_lf = rng.chance(0.5);
    if no_final_lf {
        let last = lines.iter().find(|l| l.chars().count() >= 2 && !l.trim().is_empty()).cloned().unwrap_or_else(|| "ab".to_string());
        lines.push(last);
        ctx.bucket("cli_input_without_final_line_feed");
    }
    let input = lines.join("\n") + if no_final_lf { "" } else { "\n" };
    w("input.txt", input.as_bytes());
    let mut t = Command::new(format!("{cli}/tokenize"));
    t.args(["-i", &format!("{dir}/sys.dic.zst"), "-O", "mecab"]);
    if o.ignore_space {
        t.arg("-S");
    }
    if o.mgl != 0 {
        t.args(["-M", &o.mgl.to_string()]);
    }
    let out = t.stdin(std::fs::File::open(format!("{dir}/input.txt")).unwrap()).stderr(Stdio::null()).output();
    let out = match out {
        Ok(o) if o.status.success() => o.stdout,
        _ => {
            ctx.violation("tokenize_cli_failed", "C19:tokenize_cli_failed", "the tokenize CLI did not exit successfully".into(), cj(String::new()));
            return;
        }
    };
    // the same lines in-process
    let d = match build_spec(&case.spec) {
        BuildOutcome::Ok(d) => d,
        _ => return,
    };
    let tok = match make_tokenizer(d, o) {
        Ok(t) => t,
        Err(_) => return,
    };
    let mut wk = tok.new_worker();
    let mut want: Vec<Sent> = vec![];
    for l in &lines {
        match tokenize(&mut wk, l) {
            Ok(t) => {
                let s: Sent = t.iter().map(|x| (x.surface.clone(), x.feat.clone())).collect();
                if s.iter().map(|x| x.0.len()).sum::<usize>() > 0 {
                    want.push(s);
                }
            }
            Err(_) => return,
        }
    }
    ctx.eval();
    match guarded(|| Corpus::from_reader(out.as_slice()).map(|c| examples_of(&c)).map_err(|e| e.to_string())) {
        Ok(Ok(got)) => {
            if got != want {
                let i = got.iter().zip(&want).position(|(a, b)| a != b).unwrap_or(got.len().min(want.len()));
                ctx.violation("tokenizer_output_parses_to_different_tokens", "C19:tokenizer_output_parses_to_different_tokens", format!("{} sentences parsed, {} expected; first difference at sentence {i}: {:?} vs {:?}", got.len(), want.len(), got.get(i), want.get(i)), cj(String::from_utf8_lossy(&out).chars().take(2000).collect()));
                return;
            }
            ctx.bucket("tokenizer_cli_output_parsed_as_corpus");
            ctx.total("cli_sentences_compared", want.len() as u64);
            ctx.distinct(hash_bytes(&out));
            // ... and can be fed to `split` and `evaluate`
            w("tok.txt", &out);
            if std::path::Path::new(&format!("{cli}/split")).exists() && !want.is_empty() {
                let (vr, tr) = ([0.0, 0.1, 0.2, 0.3, 0.4][rng.below(5)], [0.0, 0.1, 0.2, 0.3, 0.5][rng.below(5)]);
                let st = Command::new(format!("{cli}/split"))
                    .args(["-i", &format!("{dir}/tok.txt"), "-t", &format!("{dir}/s.train"), "-v", &format!("{dir}/s.valid"), "-e", &format!("{dir}/s.test"), "--valid-ratio", &vr.to_string(), "--test-ratio", &tr.to_string()])
                    .stdout(Stdio::null())
                    .stderr(Stdio::null())
                    .status();
                ctx.eval();
                let mut parts: Vec<Sent> = vec![];
                let mut ok = st.map_or(false, |s| s.success());
                for f in ["s.train", "s.valid", "s.test"] {
                    match std::fs::read(format!("{dir}/{f}")).ok().and_then(|b| Corpus::from_reader(b.as_slice()).ok()) {
                        Some(c) => parts.extend(examples_of(&c)),
                        None => ok = false,
                    }
                }
                let mut a = parts;
                let mut b = want.clone();
                a.sort();
                b.sort();
                if !ok || a != b {
                    ctx.violation("split_tool_loses_or_duplicates_sentences", "C19:split_tool", format!("split --valid-ratio {vr} --test-ratio {tr} on the tokenizer's output: exit ok = {ok}; the three files hold {} sentences, the input {}", a.len(), b.len()), cj(String::from_utf8_lossy(&out).chars().take(1500).collect()));
                    let _ = std::fs::remove_dir_all(&dir);
                    return;
                }
                ctx.bucket("tokenizer_output_split_into_train_valid_test");
            }
            if std::path::Path::new(&format!("{cli}/evaluate")).exists() && !want.is_empty() && !o.ignore_space {
                // the tokenizer's own output evaluated against the same dictionary: every token is correct
                let mut e = Command::new(format!("{cli}/evaluate"));
                e.args(["-t", &format!("{dir}/tok.txt"), "-i", &format!("{dir}/sys.dic.zst")]);
                if o.mgl != 0 {
                    e.args(["-M", &o.mgl.to_string()]);
                }
                let idx = match rng.below(3) {
                    0 => None,
                    1 => Some("0".to_string()),
                    _ => Some(format!("{},{}", rng.below(3), 5 + rng.below(6))),
                };
                if let Some(i) = &idx {
                    e.args(["--feature-indices", i]);
                }
                ctx.eval();
                match e.stderr(Stdio::null()).output() {
                    Ok(r) if r.status.success() => {
                        let txt = String::from_utf8_lossy(&r.stdout).to_string();
                        let one = |k: &str| txt.lines().any(|l| l.trim() == format!("{k} = 1"));
                        if !(one("Precision") && one("Recall") && one("F1")) {
                            ctx.violation("evaluate_tool_disagrees_with_the_tokenizer", "C19:evaluate_tool", format!("evaluate (feature indices {:?}) on the tokenizer's own output printed {:?}; expected precision = recall = F1 = 1", idx, txt), cj(String::from_utf8_lossy(&out).chars().take(1500).collect()));
                            let _ = std::fs::remove_dir_all(&dir);
                            return;
                        }
                        ctx.bucket("tokenizer_output_evaluated");
                    }
                    other => {
                        ctx.violation("evaluate_tool_failed", "C19:evaluate_tool_failed", format!("evaluate (feature indices {:?}) on the tokenizer's own output: {:?}", idx, other.map(|r| r.status.code())), cj(String::from_utf8_lossy(&out).chars().take(1500).collect()));
                        let _ = std::fs::remove_dir_all(&dir);
                        return;
                    }
                }
            }
        }
        Ok(Err(e)) => ctx.violation("tokenizer_output_not_a_corpus", "C19:tokenizer_output_not_a_corpus", e, cj(String::from_utf8_lossy(&out).chars().take(2000).collect())),
        Err(p) => ctx.violation("corpus_parser_panicked", &format!("C19:{}", panic_class(&p)), p, cj(String::new())),
    }
    let _ = std::fs::remove_dir_all(&dir);
}

// ---------------------------------------------------------------- C20

pub const KNOWN_C20_EMPTY_EXPANSION: &str = "C20:template-side-without-literal-text-over-an-empty-cell";

/// Known finding: `BIGRAM B:%L[0]/%R[1]` over the left-id.def row `1 名詞,` - the right-hand expansion is the empty text,
/// which the bigram files use for BOS/EOS.
pub fn c20_witness_empty_expansion(ctx: &mut Ctx) {
    let fd = "UNIGRAM U:%F[0]\nBIGRAM B:%L[0]/%R[1]\n";
    let (rid, lid) = ("0 BOS/EOS,*\n1 動詞,x\n", "0 BOS/EOS,*\n1 名詞,\n");
    let model = "2\tB:動詞/\n";
    let (mut br, mut bl, mut bc) = (vec![], vec![], vec![]);
    ctx.eval();
    if guarded(|| vibrato::mecab::generate_bigram_info(fd.as_bytes(), rid.as_bytes(), lid.as_bytes(), model.as_bytes(), 10.0, &mut br, &mut bl, &mut bc).is_ok()) != Ok(true) {
        return;
    }
    let conn = ConnTexts::Bigram { right: br.clone(), left: bl.clone(), cost: bc.clone(), dual: false };
    if let BuildOutcome::Ok(d) = build_from_texts(b"a,0,0,0,A\n", b"DEFAULT 0 1 0\n", b"DEFAULT,0,0,0,U\n", &conn) {
        let got = vibrato::verif::conn_cost(&d, 1, 1);
        if got == -20 {
            ctx.bucket("witness_empty_expansion_ok");
        } else {
            ctx.violation("converted_cost_differs_from_model", KNOWN_C20_EMPTY_EXPANSION, format!("raw: cost(right id 1, left id 1) = {got}; model.def has `2<TAB>B:動詞/` (left expansion `B:動詞`, right expansion empty: the second cell of `1 名詞,`) and cost factor 10, so the model prescribes -20"), json!({"feature.def": fd, "right-id.def": rid, "left-id.def": lid, "model.def": model, "bigram.right": String::from_utf8_lossy(&br), "bigram.left": String::from_utf8_lossy(&bl), "bigram.cost": String::from_utf8_lossy(&bc)}));
        }
    }
}

pub fn c20_case(ctx: &mut Ctx, rng: &mut Rng) {
    // 1-6 templates, now and then 9-12 (more than the 8 lanes of the raw connector, a pre-summed part in the dual)
    let k = if rng.chance(0.15) { 9 + rng.below(4) } else { 1 + rng.below(6) };
    if k > 8 {
        ctx.bucket("more_than_8_templates");
    }
    let mut templates: Vec<(String, String)> = vec![];
    for i in 0..k {
        let mk = |rng: &mut Rng, s: char| -> String {
            match rng.below(8) {
                7 if rng.chance(0.5) => format!("B{i}:%{s}[{}],%{s}?[{}]", rng.below(3), 10 + rng.below(2)), // two-digit column indices
                7 => format!("%{s}[{}]", rng.below(2)), // no literal prefix: BOS/EOS expands to the empty text
                0 => format!("B{i}:%{s}[0]"),
                1 => format!("B{i}:%{s}[0],%{s}[1]"),
                2 => format!("B{i}:%{s}?[1]"),
                3 => format!("B{i}:%{s}[0],%{s}?[2]"),
                4 => format!("B{i}:%{s}?[1],%{s}?[2]"),
                5 => format!("B{i}:%{s}?[0],%{s}[1],%{s}?[2]"),
                _ => format!("B{i}:%{s}[{}]", rng.below(4)),
            }
        };
        templates.push((mk(rng, 'L'), mk(rng, 'R')));
    }
    let mut fd = String::from("UNIGRAM U0:%F[0]\n");
    for (l, r) in &templates {
        fd += &format!("BIGRAM {l}/{r}\n");
    }
    // (cells with a comma or a quote are written as quoted CSV cells)
    let vocab = ["名詞", "動詞", "*", "一般", "x", "y", "1,2-x", "q\"r", "名詞", "x"];
    let gen_ids = |rng: &mut Rng, n: usize| -> Vec<Vec<String>> {
        let mut v = vec![vec!["BOS/EOS".to_string(), "*".to_string(), "*".to_string()]];
        for _ in 1..n {
            // 2-3 columns, now and then 11-12 (UniDic-sized rows)
            let cols = if rng.chance(0.2) { 11 + rng.below(2) } else { 2 + rng.below(2) };
            let mut row: Vec<String> = (0..cols).map(|_| rng.pick(&vocab).to_string()).collect();
            if rng.chance(0.1) {
                // a row ending with an empty cell (`1 名詞,`): the empty text, not '*'
                *row.last_mut().unwrap() = String::new();
            }
            v.push(row);
        }
        v
    };
    let nright = 2 + rng.below(5);
    let nleft = 2 + rng.below(5);
    let right_ids = gen_ids(rng, nright); // right-id.def: right id of the LEFT word -> %L templates
    let left_ids = gen_ids(rng, nleft);
    // MeCab writes the id tables in ascending order, but nothing in the format requires it
    let shuffle_lines = rng.chance(0.3);
    let perm_seed = rng.next();
    let idfile = |v: &Vec<Vec<String>>| -> String {
        let mut lines: Vec<String> = v.iter().enumerate().map(|(i, f)| format!("{i} {}\n", f.iter().map(|c| csv_cell(c, false)).collect::<Vec<_>>().join(","))).collect();
        if shuffle_lines {
            Rng(perm_seed ^ v.len() as u64).shuffle(&mut lines);
        }
        lines.concat()
    };
    if shuffle_lines {
        ctx.bucket("id_table_lines_not_in_ascending_order");
    }
    let factor = *rng.pick(&[1.0f64, 10.0, 700.0, 0.5]);
    // model.def
    let mut model = String::new();
    let mut table: HashMap<String, f64> = HashMap::new();
    let mut decoys: std::collections::HashSet<String> = std::collections::HashSet::new();
    // now and then weights whose scaled cost exceeds 16 bits (the conversion keeps 32-bit costs)
    let big_weights = rng.chance(0.15);
    let wstr = |rng: &mut Rng| -> String {
        if big_weights && rng.chance(0.3) {
            return format!("{}{}.{:02}", if rng.chance(0.5) { "-" } else { "" }, 40 + rng.below(400), rng.below(100));
        }
        match rng.below(6) {
            0 => "0".to_string(),
            1 => format!("-{}.{}", rng.below(3), rng.below(1000)),
            2 => format!("{}", rng.below(5)),
            3 => format!("0.000{}", rng.below(10)),
            _ => format!("{}{}.{:03}", if rng.chance(0.5) { "-" } else { "" }, rng.below(3), rng.below(1000)),
        }
    };
    for (ki, (lt, rt)) in templates.iter().enumerate() {
        for r in 1..nright {
            for l in 1..nleft {
                if rng.chance(0.6) {
                    if let (Some(a), Some(b)) = (ref_expand(lt, 'L', &right_ids[r], 0), ref_expand(rt, 'R', &left_ids[l], 0)) {
                        let key = format!("{a}/{b}");
                        if table.contains_key(&key) {
                            continue;
                        }
                        let w = wstr(rng);
                        model += &format!("{w}\t{key}\n");
                        table.insert(key, w.parse().unwrap());
                    }
                }
            }
        }
        // lines whose text is what a template WOULD expand to if its optional references were ordinary
        // ones ('*' filled in): such a template does not apply, so these lines must never contribute
        if lt.contains('?') || rt.contains('?') {
            let (lt2, rt2) = (lt.replace("?[", "["), rt.replace("?[", "["));
            for r in 1..nright {
                for l in 1..nleft {
                    let applies = ref_expand(lt, 'L', &right_ids[r], 0).is_some() && ref_expand(rt, 'R', &left_ids[l], 0).is_some();
                    if !applies && rng.chance(0.5) {
                        if let (Some(a), Some(b)) = (ref_expand(&lt2, 'L', &right_ids[r], 0), ref_expand(&rt2, 'R', &left_ids[l], 0)) {
                            let key = format!("{a}/{b}");
                            if !table.contains_key(&key) && !decoys.contains(&key) {
                                model += &format!("{}\t{key}\n", wstr(rng));
                                decoys.insert(key);
                            }
                        }
                    }
                }
            }
        }
        // unmatched, unigram, BOS lines
        model += &format!("{}\tB{ki}:zzz/B{ki}:yyy\n", wstr(rng));
        model += &format!("{}\tU0:名詞\n", wstr(rng));
        model += &format!("{}\tBOS/EOS/B{ki}:x\n", wstr(rng));
    }
    if rng.chance(0.5) {
        // the weight of BOS/EOS followed by BOS/EOS (it concerns the id pair (0, 0) only)
        model += &format!("{}\tBOS/EOS/BOS/EOS\n", wstr(rng));
    }
    let cj = |d: String| json!({"feature.def": fd, "right-id.def": idfile(&right_ids), "left-id.def": idfile(&left_ids), "model.def": model, "cost_factor": factor, "detail": d});
    // ---- error cases: gap, malformed id line, id 0 not BOS/EOS
    if rng.chance(0.2) {
        // the error cases are built from tables in ascending order
        let sorted = |v: &Vec<Vec<String>>| -> String { v.iter().enumerate().map(|(i, f)| format!("{i} {}\n", f.iter().map(|c| csv_cell(c, false)).collect::<Vec<_>>().join(","))).collect() };
        let (mut rtxt, ltxt) = (sorted(&right_ids), sorted(&left_ids));
        let kind = rng.below(3);
        match kind {
            0 => {
                // a gap among the defined ids
                let lines: Vec<&str> = rtxt.lines().collect();
                if lines.len() < 3 {
                    return;
                }
                let drop = 1 + rng.below(lines.len() - 2);
                rtxt = lines.iter().enumerate().filter(|(i, _)| *i != drop).map(|(_, l)| format!("{l}\n")).collect();
            }
            1 => {
                // a line that is not `<decimal id> <features>`: appended with the next dense id, so that only
                // its form is wrong
                let n = rtxt.lines().count();
                let bad = match rng.below(8) {
                    0 => "x 名詞,一般".to_string(),
                    1 => format!("+{n} 名詞,一般"),
                    2 => "-1 名詞,一般".to_string(),
                    3 => format!(" {n} 名詞,一般"),
                    4 => format!("{n}\t名詞,一般"),
                    5 => format!("{n}"),
                    6 => format!("{n}名詞,一般"),
                    _ => String::new(),
                };
                if rng.chance(0.5) {
                    rtxt += &format!("{bad}\n");
                } else {
                    // in the middle: in place of the line of id 1, whose id it takes when it has one
                    let lines: Vec<String> = rtxt.lines().map(|l| l.to_string()).collect();
                    let bad1 = bad.replace(&n.to_string(), "1");
                    rtxt = lines.iter().enumerate().map(|(i, l)| if i == 1 { format!("{bad1}\n") } else { format!("{l}\n") }).collect();
                }
            }
            _ => rtxt = rtxt.replacen("0 BOS/EOS", ["0 名詞", "0 BOS/EOS記号", "0 BOS/EOS-2", "0 bos/eos", "0 \"BOS/EOS \""][rng.below(5)], 1),
        }
        let swap = rng.chance(0.5);
        let (a, b) = if swap { (ltxt.clone(), rtxt.clone()) } else { (rtxt.clone(), ltxt.clone()) };
        ctx.eval();
        let name = ["gap_among_ids", "malformed_id_line", "id_0_not_BOS_EOS"][kind];
        let (mut o1, mut o2, mut o3) = (vec![], vec![], vec![]);
        match guarded(|| vibrato::mecab::generate_bigram_info(fd.as_bytes(), a.as_bytes(), b.as_bytes(), model.as_bytes(), factor, &mut o1, &mut o2, &mut o3).is_err()) {
            Ok(true) => ctx.bucket(&format!("rejected_{name}")),
            Ok(false) => ctx.violation("invalid_id_table_accepted", &format!("C20:invalid_id_table_accepted:{name}"), format!("{name} in {}", if swap { "left-id.def" } else { "right-id.def" }), json!({"right-id.def": a, "left-id.def": b, "feature.def": fd})),
            Err(p) => ctx.violation("conversion_panicked", &format!("C20:{}", panic_class(&p)), p, json!({"right-id.def": a, "left-id.def": b})),
        }
        return;
    }
    ctx.eval();
    let (mut br, mut bl, mut bc) = (vec![], vec![], vec![]);
    match guarded(|| vibrato::mecab::generate_bigram_info(fd.as_bytes(), idfile(&right_ids).as_bytes(), idfile(&left_ids).as_bytes(), model.as_bytes(), factor, &mut br, &mut bl, &mut bc).map_err(|e| e.to_string())) {
        Ok(Ok(())) => {}
        Ok(Err(e)) => {
            ctx.violation("valid_description_rejected", "C20:valid_description_rejected", e, cj(String::new()));
            return;
        }
        Err(p) => {
            ctx.violation("conversion_panicked", &format!("C20:{}", panic_class(&p)), p, cj(String::new()));
            return;
        }
    }
    // ids emitted densely, in increasing order
    for (name, data, n) in [("bigram.right", &br, nright), ("bigram.left", &bl, nleft)] {
        let ids: Vec<String> = String::from_utf8_lossy(data).lines().map(|l| l.split('\t').next().unwrap_or("").to_string()).collect();
        let want: Vec<String> = (1..n).map(|i| i.to_string()).collect();
        if ids != want {
            ctx.violation("ids_not_dense_and_increasing", "C20:ids_not_dense_and_increasing", format!("{name} lists ids {:?}, expected {:?}", ids, want), cj(String::new()));
            return;
        }
    }
    // compile (raw and dual) with a dummy lexicon and compare every pair of non-zero ids
    let bare_over_empty = templates.iter().any(|(l, r)| crate::trainprops::bare_template_side(l) || crate::trainprops::bare_template_side(r))
        && right_ids.iter().chain(left_ids.iter()).skip(0).any(|row| row.iter().any(|c| c.is_empty()));
    if bare_over_empty {
        ctx.bucket("template_side_without_literal_text_and_empty_cell");
    }
    if big_weights {
        ctx.bucket("weights_beyond_16_bits_after_scaling");
    }
    for dual in [false, true] {
        if dual && big_weights {
            continue; // the dual connector's 16-bit pre-sum precondition (C07) would not hold
        }
        let conn = ConnTexts::Bigram { right: br.clone(), left: bl.clone(), cost: bc.clone(), dual };
        let d = match build_from_texts(b"a,0,0,0,A\n", b"DEFAULT 0 1 0\n", b"DEFAULT,0,0,0,U\n", &conn) {
            BuildOutcome::Ok(d) => d,
            BuildOutcome::Err(e) => {
                ctx.violation("generated_files_do_not_compile", "C20:generated_files_do_not_compile", e, cj(String::new()));
                return;
            }
            BuildOutcome::Panic(p) => {
                ctx.violation("compiling_generated_files_panicked", "C20:compiling_generated_files_panicked", p, cj(String::new()));
                return;
            }
        };
        if vibrato::verif::conn_dims(&d) != (nright, nleft) {
            ctx.violation("dimensions_differ", "C20:dimensions_differ", format!("{:?} vs ({nright},{nleft})", vibrato::verif::conn_dims(&d)), cj(String::new()));
            return;
        }
        for r in 1..nright {
            for l in 1..nleft {
                let mut want = 0i64;
                let mut applicable = 0;
                for (lt, rt) in &templates {
                    if let (Some(a), Some(b)) = (ref_expand(lt, 'L', &right_ids[r], 0), ref_expand(rt, 'R', &left_ids[l], 0)) {
                        applicable += 1;
                        if let Some(w) = table.get(&format!("{a}/{b}")) {
                            want += (-(w * factor)) as i32 as i64;
                        }
                    }
                }
                let got = vibrato::verif::conn_cost(&d, r as u16, l as u16) as i64;
                if got != want && bare_over_empty {
                    // (listed known finding: the empty expansion coincides with the feature of BOS/EOS)
                    ctx.violation("converted_cost_differs_from_model", KNOWN_C20_EMPTY_EXPANSION, format!("{}: cost(right id {r}, left id {l}) = {got}, the model prescribes {want}; a template side without literal text meets an empty id-table cell", if dual { "dual" } else { "raw" }), cj(String::new()));
                    return;
                }
                if got != want {
                    ctx.violation("converted_cost_differs_from_model", "C20:converted_cost_differs_from_model", format!("{}: cost(right id {r}, left id {l}) = {got}, the model prescribes {want} ({applicable} templates apply to both)", if dual { "dual" } else { "raw" }), cj(format!("bigram.right:\n{}\nbigram.left:\n{}\nbigram.cost:\n{}", String::from_utf8_lossy(&br), String::from_utf8_lossy(&bl), String::from_utf8_lossy(&bc))));
                    return;
                }
                if want != 0 {
                    ctx.bucket("non_zero_cost_compared");
                }
                if applicable < templates.len() {
                    ctx.bucket("optional_template_not_applicable");
                }
            }
        }
    }
    if nright != nleft {
        ctx.bucket("id_tables_of_different_sizes");
    }
    ctx.total("id_pairs_compared", ((nright - 1) * (nleft - 1) * 2) as u64);
    ctx.distinct(hash_bytes(cj(String::new()).to_string().as_bytes()));
    if ctx.want_sample() {
        ctx.sample(json!({"feature.def": fd, "right-id.def": idfile(&right_ids), "model.def_lines": model.lines().count(), "cost_factor": factor, "bigram.cost_head": String::from_utf8_lossy(&bc).lines().take(4).collect::<Vec<_>>()}));
    }
}

/// a tokenizer that is never used: keeps the import list honest for builds without C19's CLI part
#[allow(dead_code)]
fn _unused(_: &Tokenizer) {}

/// Deterministic witnesses for defects repaired by `fix:` commits (C10): they must stay repaired.
pub fn c10_witnesses(ctx: &mut Ctx) {
    for dual in [false, true] {
        ctx.eval();
        let conn = ConnTexts::Bigram { right: vec![], left: vec![], cost: vec![], dual };
        match build_from_texts(b"a,0,0,0,A\n", b"DEFAULT 0 1 0\n", b"DEFAULT,0,0,100,U\n", &conn) {
            BuildOutcome::Panic(p) => ctx.violation("builder_panicked", "C10:witness:empty-bigram-files", format!("empty bigram.right/left/cost (dual={dual}): {p}"), json!({"bigram.right": "", "bigram.left": "", "bigram.cost": "", "dual": dual})),
            _ => ctx.bucket("witness_empty_bigram_files_no_panic"),
        }
    }
    // rows without any feature in both side files
    for dual in [false, true] {
        ctx.eval();
        let conn = ConnTexts::Bigram { right: b"1\t\n2\t\n".to_vec(), left: b"1\t\n".to_vec(), cost: vec![], dual };
        match build_from_texts(b"a,1,2,0,A\n", b"DEFAULT 0 1 0\n", b"DEFAULT,0,0,100,U\n", &conn) {
            BuildOutcome::Panic(p) => ctx.violation("builder_panicked", "C10:witness:feature-less-bigram-rows", format!("bigram.right `1<TAB>`,`2<TAB>` / bigram.left `1<TAB>` (dual={dual}): {p}"), json!({"bigram.right": "1\t\n2\t\n", "bigram.left": "1\t\n", "bigram.cost": "", "dual": dual})),
            _ => ctx.bucket("witness_feature_less_bigram_rows_no_panic"),
        }
    }
    // a lexicon ending right after the cost field's comma
    ctx.eval();
    match build_from_texts(b"a,0,0,10,", b"DEFAULT 0 1 0\n", b"DEFAULT,0,0,100,U\n", &ConnTexts::Matrix(b"1 1\n0 0 0\n".to_vec())) {
        BuildOutcome::Panic(p) => ctx.violation("builder_panicked", "C10:witness:lexicon-ends-after-cost-comma", p, json!({"lex.csv": "a,0,0,10,"})),
        _ => ctx.bucket("witness_lexicon_ends_after_cost_comma_no_panic"),
    }
}
