TEXT = {
    "C01": {
        "technique": "runtime monitor: partition oracle over tokens of generated dictionaries x strings; debug-assertion and ASan flavours",
        "level": "Sampled exploration: ~10^6 (quick) to ~10^7 (thorough) tokenizations of generated dictionaries (all connector kinds, user lexicon, id mapping, write/read) are each judged by a partition checker written from the statement; panics/aborts are attributed to cases. Held on the executions observed, nothing is claimed about inputs the generators do not produce.",
        "note": "Trusts the harness's reference character table and the generator's rows as ground truth; termination observed up to a watchdog. The uncovered-category panic is a listed known finding.",
    },
    "C02": {
        "technique": "runtime monitor: independent i64 Viterbi DP over the hooked lattice dump + black-box optimum over reference candidates",
        "level": "Sampled exploration: every non-empty tokenization is re-derived by an independent DP over the dumped lattice (every node's recurrence, EOS, back-pointers, prefix sums) and compared with the reference optimum; tie-heavy, negative-cost and EOS-decides dictionaries are required coverage.",
        "note": "Connection costs come from the generator's description; costs within i32 as the property states. >= 65536 nodes per boundary is a listed known finding.",
    },
    "C03": {
        "technique": "runtime monitor: candidate multiset per lattice position vs reference MeCab unknown-word/prefix rule; char-table hook vs reference table",
        "level": "Sampled exploration with required branch coverage of the unknown-word rule (invoke/group/length/max_grouping_len/fallback/multi-category/astral); thorough compares the whole BMP character table.",
        "note": "With ignore_space the full comparison is restricted to dictionaries meeting C12's precondition. Astral characters with a range covering U+0000 are a listed known finding.",
    },
    "C04": {
        "technique": "runtime monitor: operation histories vs fresh-worker model; concurrent workers vs sequential results under ThreadSanitizer (and Miri many-seeds in thorough)",
        "level": "Sampled exploration of histories (reset/tokenize x0-3/counter ops, few distinct sentences so reused buffers are exercised) and of thread interleavings (2-16 workers on one Tokenizer, seeded yields, overlap measured by tickets); TSan flags any data race, Miri (thorough) any UB/race on 8 schedules of a tiny dictionary.",
        "note": "Interleavings are sampled, not enumerated; workers share no mutable state by construction, so the sanitizer layer is a tripwire for future unsafe/interior mutability.",
    },
    "C06": {
        "technique": "runtime monitor: permutation algebra on real connectors (all id pairs) + before/after tokenization over operation histories; outcome classifier for malformed mappings",
        "level": "Sampled exploration of dictionaries x permutation pairs x operation orders (map, map again, user lexicon before/after, write/read); all id pairs of each case are compared.",
        "note": "Tokens are compared exactly only when the reference optimum is unique; otherwise by cost.",
    },
    "C08": {
        "technique": "runtime monitor: observational equivalence between real dictionaries (history vs final lexicon alone vs extended system lexicon) on tokens and hooked candidate multisets; outcome classifier for invalid CSVs; ASan for the no-out-of-range-lookup clause",
        "level": "Sampled exploration of user CSVs x load/replace/clear histories on mapped and unmapped dictionaries of all connector kinds.",
        "note": "Equivalence with the extended system lexicon is judged on candidate multisets modulo lexicon type and on optimal cost (tie-breaking may differ).",
    },
    "C12": {
        "technique": "runtime monitor: metamorphic relation over re-spaced variants + reference skip rule",
        "level": "Sampled exploration of precondition-meeting dictionaries x sentences x 8 re-spacings each.",
        "note": "Exact token equality is demanded only when the reference optimum is unique.",
    },
    "C05": {
        "technique": "runtime monitor: observational equivalence D vs read(write(D)) (tokens, all connector cells, bytes) across later-operation histories; fault-injecting writer; portable<->AVX2 exchange; ASan on decode",
        "level": "Sampled exploration of dictionaries (all connector kinds, user lexicon, mapper) x later API operation sequences; the same seeds run in a portable and an AVX2 build whose images and results are compared.",
        "note": "Equivalence is observed on sampled sentences and all connector cells, not proved for all inputs.",
    },
    "C07": {
        "technique": "runtime monitor: defining feature-pair sum vs real raw/dual connector on all id pairs + probe sentences; bounded-exhaustive scorer key sets; Miri (portable and +avx2), valgrind memcheck and ASan on the gather path",
        "level": "Sampled exploration at model level, small-scope exhaustive at scorer level (all key sets of size <= 3 over a 5x5 universe, all probes), UB interpretation of the real scorer code under Miri in both code paths.",
        "note": "The dual connector is compared only under its stated precondition (guaranteed by the generator's cost bound).",
    },
    "C09": {
        "technique": "fault enumeration: every truncation point of sampled images + hostile readers/writers + all single-byte header corruptions; outcome classifier",
        "level": "Exhaustive over the truncation points of the images enumerated (every strict prefix of one image per connector kind, ~10^6 decode attempts); images sampled; ASan re-runs a stride sample in thorough.",
        "note": "Err is required for every strict prefix; panics count as violations; reader/writer faults are injected through std::io traits.",
    },
    "C11": {
        "technique": "runtime monitor: generator's structured rows vs word_feature()/lattice nodes of the compiled lexicon",
        "level": "Sampled exploration of well-formed CSVs with random quoting and end-of-file variants, system and user side.",
        "note": "Well-formedness as listed in the evidence assumptions.",
    },
    "C13": {
        "technique": "runtime monitor: independent recount of connection-cost evaluations on a reference lattice + hooked CostEval event log; end-to-end map acceptance",
        "level": "Sampled exploration of dictionaries x line histories (empty lines, repeats, trailing spaces); thorough also drives the real compile/reorder/map/tokenize CLIs.",
        "note": "The verdict follows the reference recount; the event log is evidence (an implementation may cache evaluations).",
    },
    "C10": {
        "technique": "runtime monitor: outcome classifier over structure-aware single-edit corruptions + differential semantics against strict reference parsers; debug-assertion and ASan flavours",
        "level": "Sampled exploration of the neighbourhood of valid file sets (one edit of one file), every builder entry point, plus adversarial tokenization of whatever is accepted.",
        "note": "Semantic agreement is judged only when the strict reference parsers accept the same files. The uncovered-category panic is a listed known finding (shared with C01).",
    },
    "C14": {
        "technique": "runtime monitor: emitted files re-derived from the hooked model view; monotonicity; real builder on the output",
        "level": "Sampled exploration of training configurations (real trainer runs), every emitted row checked.",
        "note": "rucrf's merge is trusted; floating point accepts either association order of the scaling formula.",
    },
    "C15": {
        "technique": "runtime monitor: byte comparison of files generated before/after write_model/read_model over operation sequences",
        "level": "Sampled exploration of trained models x operation sequences.",
        "note": "bigram.cost is compared as a multiset (hash-map order).",
    },
    "C16": {
        "technique": "runtime monitor: all-pairs comparison of real connectors compiled from the two emitted file sets (matrix vs raw vs dual), portable and AVX2",
        "level": "Sampled exploration of trained models; every id pair of each is compared.",
        "note": "K is the number of BIGRAM templates of the configuration.",
    },
    "C17": {
        "technique": "runtime monitor: function hook vs linear-scan reference; small scope enumerated completely, larger scopes sampled",
        "level": "Exhaustive over the stated small scope (27 930 rule lists x 85 feature lists), sampled beyond it.",
        "note": "The hook runs the real parser and the real trie matcher; only the reference is mine.",
    },
    "C18": {
        "technique": "runtime monitor: function hook vs independent template expander; trained dictionaries' ids and bigram.left/right rows vs independent expansion + rewrite reference",
        "level": "Sampled exploration at both levels.",
        "note": "Uses C17's reference for the rewrite step.",
    },
    "C19": {
        "technique": "runtime monitor: structured corpus vs parse/write/re-parse; real compile+tokenize CLI output parsed as a corpus and compared with in-process tokens",
        "level": "Sampled exploration of corpora; a few hundred CLI round trips per run.",
        "note": "The CLIs are rebuilt from /repo's working tree by the check.",
    },
    "C20": {
        "technique": "runtime monitor: independent MeCab-model evaluator vs connectors compiled from generate_bigram_info's output (all non-zero id pairs); outcome classifier for invalid id tables",
        "level": "Sampled exploration of model descriptions.",
        "note": "Shares the template expander with C18, no code with the extractor under test.",
    },
}
NOT_APPLICABLE = []
