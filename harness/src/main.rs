#![allow(dead_code)]
//! vharness — runtime monitors for vibrato. Driven by /verif/run.
mod cliprops;
mod dictprops;
mod gen;
mod miscprops;
mod model;
mod oracles;
mod real;
mod report;
mod rng;
mod tokprops;
mod tokprops2;
mod trainprops;

use report::{Ctx, Tier};
use rng::Rng;
use std::io::Write;
use std::time::Instant;

struct Args {
    cmd: String,
    prop: String,
    tier: Tier,
    seed: u64,
    shard: u64,
    nshards: u64,
    cases: u64,
    budget_s: f64,
    out: String,
    known: Vec<String>,
    index: u64,
    flavour: String,
    stage: String,
    xdir: String,
}

fn parse_args() -> Args {
    let v: Vec<String> = std::env::args().collect();
    let mut a = Args {
        cmd: v.get(1).cloned().unwrap_or_default(),
        prop: String::new(),
        tier: Tier::Quick,
        seed: 1,
        shard: 0,
        nshards: 1,
        cases: 100,
        budget_s: 60.0,
        out: String::new(),
        known: vec![],
        index: 0,
        flavour: "rel".into(),
        stage: "main".into(),
        xdir: String::new(),
    };
    let mut i = 2;
    while i + 1 < v.len() + 1 {
        let k = match v.get(i) {
            Some(k) => k.as_str(),
            None => break,
        };
        let val = v.get(i + 1).cloned().unwrap_or_default();
        match k {
            "--prop" => a.prop = val,
            "--tier" => a.tier = if val == "thorough" { Tier::Thorough } else { Tier::Quick },
            "--seed" => a.seed = val.parse().unwrap(),
            "--shard" => a.shard = val.parse().unwrap(),
            "--nshards" => a.nshards = val.parse().unwrap(),
            "--cases" => a.cases = val.parse().unwrap(),
            "--budget-s" => a.budget_s = val.parse().unwrap(),
            "--out" => a.out = val,
            "--index" => a.index = val.parse().unwrap(),
            "--flavour" => a.flavour = val,
            "--stage" => a.stage = val,
            "--xdir" => a.xdir = val,
            "--known" => {
                // file with one known signature per line
                if let Ok(s) = std::fs::read_to_string(&val) {
                    a.known = s.lines().map(|l| l.trim().to_string()).filter(|l| !l.is_empty()).collect();
                }
            }
            _ => {}
        }
        i += 2;
    }
    a
}

/// Deterministic witnesses of known findings and fixed defects; run once (shard 0).
fn witnesses(ctx: &mut Ctx) {
    let prop = ctx.prop.clone();
    match prop.as_str() {
        "C01" => tokprops::c01_witness_long_sentence(ctx),
        "C02" => tokprops::c02_witness_many_nodes(ctx),
        "C03" => {
            tokprops::c03_witness_astral(ctx);
            tokprops::c03_witness_long_runs(ctx);
        }
        "C06" | "C13" if ctx.flavour != "avx2" => tokprops2::c06_witness_65536_ids(ctx, &prop),
        "C07" => dictprops::c07_witnesses(ctx),
        "C10" => miscprops::c10_witnesses(ctx),
        "C14" => trainprops::c14_witness_no_bigram_feature(ctx),
        "C20" => miscprops::c20_witness_empty_expansion(ctx),
        "C16" => {
            trainprops::c16_witness_dual_clamp(ctx);
            trainprops::c16_witness_star_feature(ctx);
        }
        _ => {}
    }
}

fn run_case(ctx: &mut Ctx, rng: &mut Rng, stage: &str, xdir: &str) {
    match ctx.prop.as_str() {
        "C01" => tokprops::c01_case(ctx, rng),
        "C02" => tokprops::c02_case(ctx, rng),
        "C03" => tokprops::c03_case(ctx, rng),
        "C04" => tokprops2::c04_case(ctx, rng, stage),
        "C05" => dictprops::c05_case(ctx, rng, stage, xdir),
        "C07" => dictprops::c07_case(ctx, rng, stage),
        "C09" => dictprops::c09_case(ctx, rng, stage),
        "C10" => miscprops::c10_case(ctx, rng),
        "C11" => dictprops::c11_case(ctx, rng),
        "C13" if stage == "cli" => cliprops::c13_cli(ctx, rng, xdir),
        "C13" => dictprops::c13_case(ctx, rng),
        "C14" => trainprops::c14_case(ctx, rng),
        "C15" | "C18" if stage == "cli" => cliprops::c15_cli(ctx, rng, xdir),
        "C15" => trainprops::c15_case(ctx, rng),
        "C16" => trainprops::c16_case(ctx, rng),
        "C17" => trainprops::c17_case(ctx, rng),
        "C18" => trainprops::c18_case(ctx, rng),
        "C19" => miscprops::c19_case(ctx, rng, xdir),
        "C20" => miscprops::c20_case(ctx, rng),
        "C06" => tokprops2::c06_case(ctx, rng),
        "C08" => tokprops2::c08_case(ctx, rng),
        "C12" => tokprops2::c12_case(ctx, rng),
        p => panic!("unknown property {p}"),
    }
}

fn main() {
    let a = parse_args();
    real::install_panic_hook();
    match a.cmd.as_str() {
        "run" => {
            let start = Instant::now();
            let mut ctx = Ctx::new(&a.prop, a.tier, a.seed, a.shard, a.nshards, a.known.clone(), &a.flavour);
            let cur = format!("{}.cur", a.out);
            if a.shard == 0 && (a.stage == "main" || a.stage == "avx2") {
                let _ = std::fs::write(&cur, "witnesses");
                witnesses(&mut ctx);
            }
            let mut done = 0u64;
            for idx in 0..a.cases {
                if start.elapsed().as_secs_f64() > a.budget_s {
                    break;
                }
                ctx.index = idx;
                let _ = std::fs::write(&cur, format!("{}", idx));
                let mut rng = Rng::for_case(a.seed, &a.prop, a.shard, idx);
                run_case(&mut ctx, &mut rng, &a.stage, &a.xdir);
                done += 1;
            }
            let _ = std::fs::remove_file(&cur);
            // distinct hashes go to a binary side file
            let mut hs: Vec<u64> = ctx.hashes.iter().cloned().collect();
            hs.sort();
            let mut f = std::fs::File::create(format!("{}.hashes", a.out)).unwrap();
            for h in &hs {
                f.write_all(&h.to_le_bytes()).unwrap();
            }
            ctx.hashes.clear();
            let mut j = ctx.to_json(done, start.elapsed().as_secs_f64());
            j["distinct_local"] = serde_json::json!(hs.len());
            j["stage"] = serde_json::json!(a.stage);
            std::fs::write(&a.out, serde_json::to_vec(&j).unwrap()).unwrap();
        }
        "one" => {
            // replay a single generated case verbosely
            let mut ctx = Ctx::new(&a.prop, a.tier, a.seed, a.shard, a.nshards, vec![], &a.flavour);
            ctx.verbose = true;
            ctx.index = a.index;
            if a.index == u64::MAX {
                witnesses(&mut ctx);
            } else {
                let mut rng = Rng::for_case(a.seed, &a.prop, a.shard, a.index);
                run_case(&mut ctx, &mut rng, &a.stage, &a.xdir);
            }
            let j = ctx.to_json(1, 0.0);
            println!("{}", serde_json::to_string_pretty(&serde_json::json!({"violations": j["violations"], "evaluations": j["evaluations"], "notes": j["notes"], "buckets": j["buckets"]})).unwrap());
            std::process::exit(if ctx.violations.is_empty() { 0 } else { 1 });
        }
        "count-hashes" => {
            // union of the hash files given after the command
            let mut all: Vec<u64> = vec![];
            for p in std::env::args().skip(2) {
                if let Ok(b) = std::fs::read(&p) {
                    for c in b.chunks_exact(8) {
                        all.push(u64::from_le_bytes(c.try_into().unwrap()));
                    }
                }
            }
            all.sort_unstable();
            all.dedup();
            println!("{}", all.len());
        }
        _ => {
            eprintln!("usage: vharness run|one|count-hashes ...");
            std::process::exit(2);
        }
    }
}
