//! Oracles shared by the tokenization properties (C01, C02, C03, C06, C08, C12).
use crate::model::*;
use crate::real::*;
use std::collections::BTreeMap;
use vibrato::dictionary::{Dictionary, LexType, WordIdx};
use vibrato::verif::{LatticeDump, NodeDump};

pub type Fail = (String, String); // (check name, detail)

fn fail<T>(check: &str, detail: String) -> Result<T, Fail> {
    Err((check.to_string(), detail))
}

/// C01: the partition checker, written from the statement. Uses only the sentence, the
/// generator's rows and the reference character table.
pub fn check_partition(spec: &DictSpec, user: Option<&[LexRow]>, opts: Opts, s: &str, toks: &[Tok], dict: &Dictionary) -> Result<(), Fail> {
    let chars: Vec<(usize, char)> = s.char_indices().collect();
    let n = chars.len();
    let boff = |ci: usize| if ci < n { chars[ci].0 } else { s.len() };
    if s.is_empty() && !toks.is_empty() {
        return fail("empty_string_yields_tokens", format!("{} tokens for the empty string", toks.len()));
    }
    let sys: Vec<&LexRow> = spec.lex.iter().filter(|r| !r.surface.is_empty()).collect();
    let usr: Vec<&LexRow> = user.map(|u| u.iter().filter(|r| !r.surface.is_empty()).collect()).unwrap_or_default();
    let space_cat = spec.cat_index("SPACE");
    let mut prev_end = 0usize;
    let gap_ok = |from: usize, to: usize| -> Result<(), Fail> {
        if from == to {
            return Ok(());
        }
        if !opts.ignore_space {
            return fail("uncovered_gap_without_ignore_space", format!("chars {from}..{to} are not covered by any token"));
        }
        let (set, _) = spec.cinfo(chars[from].1);
        match space_cat {
            Some(sc) if set.contains(&sc) => Ok(()),
            _ => fail("gap_not_starting_with_space", format!("gap {from}..{to} begins with {:?} which is not of category SPACE", chars[from].1)),
        }
    };
    for (i, t) in toks.iter().enumerate() {
        if t.cs >= t.ce {
            return fail("empty_token", format!("token {i} has char range {}..{}", t.cs, t.ce));
        }
        if t.ce > n {
            return fail("range_beyond_input", format!("token {i} has char range {}..{} but the input has {n} chars", t.cs, t.ce));
        }
        if t.cs < prev_end {
            return fail("overlap_or_disorder", format!("token {i} starts at {} before the previous end {prev_end}", t.cs));
        }
        gap_ok(prev_end, t.cs)?;
        if t.bs != boff(t.cs) || t.be != boff(t.ce) {
            return fail("byte_range_mismatch", format!("token {i}: char range {}..{} has byte range {}..{} but reported {}..{}", t.cs, t.ce, boff(t.cs), boff(t.ce), t.bs, t.be));
        }
        if t.surface != s[boff(t.cs)..boff(t.ce)] {
            return fail("surface_mismatch", format!("token {i}: surface {:?} but input slice is {:?}", t.surface, &s[boff(t.cs)..boff(t.ce)]));
        }
        // entry parameters
        match t.lex {
            0 | 1 => {
                let rows = if t.lex == 0 { &sys } else { &usr };
                match rows.get(t.word_id as usize) {
                    None => return fail("word_id_out_of_range", format!("token {i} names {} word {} but there are {} rows", t.lex, t.word_id, rows.len())),
                    Some(row) => {
                        if row.surface != t.surface || row.feat != t.feat || row.l != t.l || row.r != t.r || row.cost != t.wcost {
                            return fail(
                                "entry_params_mismatch",
                                format!("token {i} {:?} names lex {} row {} = ({:?},{},{},{},{:?}) but reports (l{},r{},w{},{:?})", t.surface, t.lex, t.word_id, row.surface, row.l, row.r, row.cost, row.feat, t.l, t.r, t.wcost, t.feat),
                            );
                        }
                    }
                }
            }
            _ => {
                let (_, primary) = spec.cinfo(chars[t.cs].1);
                let ok = spec.unk.iter().any(|u| u.cat == primary && u.l == t.l && u.r == t.r && u.cost == t.wcost && u.feat == t.feat);
                if !ok {
                    return fail(
                        "unknown_entry_mismatch",
                        format!("token {i} {:?} (l{},r{},w{},{:?}) is no unk.def entry of category {}", t.surface, t.l, t.r, t.wcost, t.feat, spec.cats[primary].name),
                    );
                }
            }
        }
        let lt = match t.lex {
            0 => LexType::System,
            1 => LexType::User,
            _ => LexType::Unknown,
        };
        let wf = dict.word_feature(WordIdx { lex_type: lt, word_id: t.word_id });
        if wf != t.feat {
            return fail("word_feature_disagrees", format!("token {i}: feature() = {:?} but word_feature(word_idx) = {:?}", t.feat, wf));
        }
        prev_end = t.ce;
    }
    if !s.is_empty() {
        gap_ok(prev_end, n)?;
    }
    if !opts.ignore_space {
        let cat: String = toks.iter().map(|t| t.surface.as_str()).collect();
        if cat != s {
            return fail("surfaces_do_not_concatenate", format!("concatenation {:?} != input {:?}", cat, s));
        }
    }
    Ok(())
}

/// Recomputes each token's total_cost from the token list alone, and the complete path cost.
pub fn path_cost(refd: &RefDict, toks: &[Tok]) -> Result<i64, Fail> {
    let mut cost = 0i64;
    let mut prev_r = 0u16;
    let (nr, nl) = refd.dims();
    for (i, t) in toks.iter().enumerate() {
        if t.l as usize >= nl || t.r as usize >= nr {
            return fail("id_out_of_connector_range", format!("token {i} has ids l{} r{} but connector is {nr}x{nl}", t.l, t.r));
        }
        cost += refd.conn(prev_r, t.l) + t.wcost as i64;
        if cost != t.total as i64 {
            return fail("total_cost_not_prefix_sum", format!("token {i} {:?}: total_cost {} but recomputed prefix sum {}", t.surface, t.total, cost));
        }
        prev_r = t.r;
    }
    Ok(cost + refd.conn(prev_r, 0))
}

/// C02 (a): independent DP over the dumped lattice.
pub fn check_dump_dp(refd: &RefDict, dump: &LatticeDump, toks: &[Tok]) -> Result<(), Fail> {
    let (nr, nl) = refd.dims();
    let idok = |n: &NodeDump, is_bos: bool| (is_bos || (n.left_id as usize) < nl) && (n.right_id as usize) < nr;
    for (b, nodes) in dump.ends.iter().enumerate() {
        for (k, node) in nodes.iter().enumerate() {
            if b == 0 {
                continue; // BOS
            }
            if !idok(node, false) {
                return fail("dump_id_out_of_range", format!("node {b}/{k} ids l{} r{}", node.left_id, node.right_id));
            }
            let preds = match dump.ends.get(node.start_node) {
                Some(p) if !p.is_empty() => p,
                _ => return fail("node_without_predecessors", format!("node {b}/{k} start_node {}", node.start_node)),
            };
            let mut best = i64::MAX;
            for p in preds {
                if !idok(p, node.start_node == 0) {
                    return fail("dump_id_out_of_range", format!("pred of {b}/{k}"));
                }
                best = best.min(p.min_cost as i64 + refd.conn(p.right_id, node.left_id));
            }
            let expect = best + node.word_cost as i64;
            if node.min_cost as i64 != expect {
                return fail("viterbi_recurrence_violated", format!("node ending at {b} #{k} (start {} l{} r{} w{}): stored prefix minimum {} but min over {} predecessors is {}", node.start_word, node.left_id, node.right_id, node.word_cost, node.min_cost, preds.len(), expect));
            }
            match preds.get(node.min_idx) {
                None => return fail("backpointer_out_of_range", format!("node {b}/{k} min_idx {}", node.min_idx)),
                Some(p) => {
                    if p.min_cost as i64 + refd.conn(p.right_id, node.left_id) != best {
                        return fail("backpointer_not_argmin", format!("node {b}/{k} points to predecessor {} which is not a cheapest one", node.min_idx));
                    }
                }
            }
        }
    }
    let eos = match &dump.eos {
        Some(e) => e,
        None => return fail("no_eos", "lattice has no EOS node".into()),
    };
    let preds = match dump.ends.get(eos.start_node) {
        Some(p) if !p.is_empty() => p,
        _ => return fail("eos_without_predecessors", format!("eos start_node {}", eos.start_node)),
    };
    let mut best = i64::MAX;
    for p in preds {
        best = best.min(p.min_cost as i64 + refd.conn(p.right_id, 0));
    }
    if eos.min_cost as i64 != best {
        return fail("eos_recurrence_violated", format!("EOS stores {} but min over {} predecessors incl. connection to id 0 is {}", eos.min_cost, preds.len(), best));
    }
    match preds.get(eos.min_idx) {
        Some(p) if p.min_cost as i64 + refd.conn(p.right_id, 0) == best => {}
        _ => return fail("eos_backpointer_not_argmin", format!("EOS points to predecessor {}", eos.min_idx)),
    }
    // tokens = back-pointer chain
    let mut chain: Vec<(usize, &NodeDump)> = vec![];
    let mut b = eos.start_node;
    let mut idx = eos.min_idx;
    let mut guard = 0;
    while b != 0 {
        let node = &dump.ends[b][idx];
        chain.push((b, node));
        b = node.start_node;
        idx = node.min_idx;
        guard += 1;
        if guard > dump.len_char + 2 {
            return fail("backpointer_cycle", "chain longer than the sentence".into());
        }
    }
    chain.reverse();
    if chain.len() != toks.len() {
        return fail("tokens_not_backpointer_chain", format!("chain has {} nodes, {} tokens reported", chain.len(), toks.len()));
    }
    for (i, ((end, node), t)) in chain.iter().zip(toks).enumerate() {
        if *end != t.ce || node.start_word != t.cs || node.left_id != t.l || node.right_id != t.r || node.min_cost != t.total || node.word_id != t.word_id || lex_code(node.lex_type) != t.lex {
            return fail("tokens_not_backpointer_chain", format!("token {i} differs from chain node ending at {end}"));
        }
    }
    // the reported path plus EOS connection must equal the EOS minimum
    let pc = path_cost(refd, toks)?;
    if pc != eos.min_cost as i64 {
        return fail("path_cost_not_eos_minimum", format!("path cost {} != EOS minimum {}", pc, eos.min_cost));
    }
    Ok(())
}

/// C02 (b): black-box optimality against the reference optimum over reference candidates.
pub fn check_blackbox_opt(refd: &RefDict, rout: &RefOut, toks: &[Tok], nchars: usize) -> Result<(), Fail> {
    if nchars == 0 {
        return Ok(());
    }
    let pc = path_cost(refd, toks)?;
    match rout.total {
        Some(t) if t == pc => Ok(()),
        Some(t) if pc > t => fail("cheaper_path_exists", format!("reported path costs {} but the reference optimum over the candidate set is {}", pc, t)),
        Some(t) => fail("path_cheaper_than_reference_optimum", format!("reported path costs {} < reference optimum {} (a token outside the candidate set, or wrong costs)", pc, t)),
        None => fail("reference_has_no_path", "reference found no complete path".into()),
    }
}

/// every reported token is a reference candidate
pub fn check_membership(rout: &RefOut, toks: &[Tok]) -> Result<(), Fail> {
    for (i, t) in toks.iter().enumerate() {
        let ok = rout.cands_at.get(t.cs).map_or(false, |cs| cs.iter().any(|c| c.end == t.ce && c.l == t.l && c.r == t.r && c.cost == t.wcost && c.feat == t.feat && c.kind == t.lex));
        if !ok {
            return fail("token_not_a_candidate", format!("token {i} {:?} {}..{} (k{} l{} r{} w{} {:?}) is not among the reference candidates at {}", t.surface, t.cs, t.ce, t.lex, t.l, t.r, t.wcost, t.feat, t.cs));
        }
    }
    Ok(())
}

type CandKey = (usize, u8, u16, u16, i16, String);

/// Candidate multisets per start position from the dump.
pub fn dump_candidates(dump: &LatticeDump, dict: &Dictionary) -> BTreeMap<usize, Vec<(CandKey, u32, usize)>> {
    let mut m: BTreeMap<usize, Vec<(CandKey, u32, usize)>> = BTreeMap::new();
    for (b, nodes) in dump.ends.iter().enumerate() {
        if b == 0 {
            continue;
        }
        for node in nodes {
            let feat = dict.word_feature(WordIdx { lex_type: node.lex_type, word_id: node.word_id }).to_string();
            m.entry(node.start_word).or_default().push(((b, lex_code(node.lex_type), node.left_id, node.right_id, node.word_cost, feat), node.word_id, node.start_node));
        }
    }
    m
}

/// C03: candidate multiset at every processed position equals the reference rule.
pub fn check_candidates(rout: &RefOut, dump: &LatticeDump, dict: &Dictionary, check_word_ids: bool) -> Result<(), Fail> {
    let real = dump_candidates(dump, dict);
    let n = dump.len_char;
    for w in 0..n {
        let mut want: Vec<CandKey> = rout.cands_at[w].iter().map(|c| (c.end, c.kind, c.l, c.r, c.cost, c.feat.clone())).collect();
        let mut got: Vec<CandKey> = real.get(&w).map(|v| v.iter().map(|x| x.0.clone()).collect()).unwrap_or_default();
        want.sort();
        got.sort();
        if want != got {
            let missing: Vec<&CandKey> = want.iter().filter(|k| !got.contains(k)).collect();
            let extra: Vec<&CandKey> = got.iter().filter(|k| !want.contains(k)).collect();
            return fail(
                "candidate_multiset_mismatch",
                format!("position {w} (processed by reference: {}): {} candidates expected, {} in the lattice; missing {:?}; unexpected {:?}", rout.processed[w], want.len(), got.len(), missing, extra),
            );
        }
        if check_word_ids {
            // system/user words must carry their row index
            for c in &rout.cands_at[w] {
                if c.kind == 2 {
                    continue;
                }
                let key: CandKey = (c.end, c.kind, c.l, c.r, c.cost, c.feat.clone());
                let ok = real.get(&w).map_or(false, |v| v.iter().any(|x| x.0 == key && x.1 as usize == c.row));
                if !ok {
                    return fail("candidate_word_id_mismatch", format!("position {w}: row {} of lexicon {} not present with its row index", c.row, c.kind));
                }
            }
        }
    }
    Ok(())
}

/// char_info hook == reference char table for one character
pub fn check_char_info(spec: &DictSpec, dict: &Dictionary, cats: &[String], ch: char) -> Result<(), Fail> {
    let ci = vibrato::verif::char_info(dict, ch);
    let (set, primary) = spec.cinfo(ch);
    let mut want: Vec<&str> = set.iter().map(|&i| spec.cats[i].name.as_str()).collect();
    want.sort();
    let mut got: Vec<&str> = vec![];
    for b in 0..32 {
        if ci.cate_idset >> b & 1 == 1 {
            got.push(cats.get(b).map(|s| s.as_str()).unwrap_or("?"));
        }
    }
    got.sort();
    let pc = &spec.cats[primary];
    let pname = cats.get(ci.base_id as usize).map(|s| s.as_str()).unwrap_or("?");
    if want != got || pname != pc.name || ci.invoke != pc.invoke || ci.group != pc.group || ci.length != pc.length {
        return fail(
            "char_info_mismatch",
            format!("U+{:04X}: expected categories {:?} primary {} ({},{},{}), table has {:?} primary {} ({},{},{})", ch as u32, want, pc.name, pc.invoke as u8, pc.group as u8, pc.length, got, pname, ci.invoke as u8, ci.group as u8, ci.length),
        );
    }
    Ok(())
}
