//! Structured description of a dictionary (the generator's ground truth), the texts derived from
//! it, and an independent, deliberately naive reference implementation of MeCab-style analysis.
//! The reference never parses the text files that vibrato parses.
use serde::{Deserialize, Serialize};
use std::collections::HashMap;

#[derive(Clone, Debug, Serialize, Deserialize, PartialEq)]
pub struct Cat {
    pub name: String,
    pub invoke: bool,
    pub group: bool,
    pub length: u16,
}

#[derive(Clone, Debug, Serialize, Deserialize, PartialEq)]
pub struct Range {
    pub lo: u32,
    pub hi: u32,
    /// indices into `DictSpec::cats`; first = primary
    pub cats: Vec<usize>,
}

#[derive(Clone, Debug, Serialize, Deserialize, PartialEq)]
pub struct UnkRow {
    pub cat: usize,
    pub l: u16,
    pub r: u16,
    pub cost: i16,
    pub feat: String,
}

#[derive(Clone, Debug, Serialize, Deserialize, PartialEq)]
pub struct LexRow {
    pub surface: String,
    pub l: u16,
    pub r: u16,
    pub cost: i16,
    /// raw text after the fourth comma, verbatim
    pub feat: String,
}

#[derive(Clone, Debug, Serialize, Deserialize, PartialEq)]
pub enum Conn {
    /// cells[l * nr + r]
    Matrix { nr: usize, nl: usize, cells: Vec<i16> },
    /// rows are 1-origin ids (index 0 = id 1); a feature "*" means "no feature".
    Bigram {
        right: Vec<Vec<String>>,
        left: Vec<Vec<String>>,
        costs: Vec<(String, String, i32)>,
        dual: bool,
    },
}

#[derive(Clone, Debug, Serialize, Deserialize, PartialEq)]
pub struct DictSpec {
    /// cats[0] is always DEFAULT
    pub cats: Vec<Cat>,
    /// order in which category lines are written to char.def (a permutation of cat indices)
    pub def_order: Vec<usize>,
    pub ranges: Vec<Range>,
    pub unk: Vec<UnkRow>,
    pub lex: Vec<LexRow>,
    pub conn: Conn,
}

#[derive(Clone, Copy, Debug, Serialize, Deserialize, PartialEq, Eq, Hash)]
pub struct Opts {
    pub ignore_space: bool,
    /// 0 = unlimited
    pub mgl: usize,
}

pub fn csv_cell(s: &str, force_quote: bool) -> String {
    let need = s.contains(',') || s.contains('"') || s.contains('\n') || s.contains('\r');
    if need || force_quote {
        format!("\"{}\"", s.replace('"', "\"\""))
    } else {
        s.to_string()
    }
}

pub fn lex_csv(rows: &[LexRow]) -> String {
    let mut s = String::new();
    for r in rows {
        s += &format!("{},{},{},{},{}\n", csv_cell(&r.surface, false), r.l, r.r, r.cost, r.feat);
    }
    s
}

impl Conn {
    pub fn dims(&self) -> (usize, usize) {
        match self {
            Conn::Matrix { nr, nl, .. } => (*nr, *nl),
            Conn::Bigram { right, left, .. } => (right.len() + 1, left.len() + 1),
        }
    }
    pub fn templates(&self) -> usize {
        match self {
            Conn::Matrix { .. } => 0,
            Conn::Bigram { right, left, .. } => right.iter().chain(left.iter()).map(|r| r.len()).max().unwrap_or(0),
        }
    }
    pub fn kind(&self) -> &'static str {
        match self {
            Conn::Matrix { .. } => "matrix",
            Conn::Bigram { dual: false, .. } => "raw",
            Conn::Bigram { dual: true, .. } => "dual",
        }
    }
    pub fn cost_table(&self) -> CostTable {
        match self {
            Conn::Matrix { .. } => CostTable { map: HashMap::new() },
            Conn::Bigram { costs, .. } => {
                let mut map = HashMap::new();
                for (a, b, c) in costs {
                    map.insert((a.clone(), b.clone()), *c as i64);
                }
                CostTable { map }
            }
        }
    }
    /// The defining connection cost (C07): for a matrix the cell; for a bigram model the sum over
    /// template positions of the listed cost of (right id's feature, left id's feature).
    pub fn cost_with(&self, tab: &CostTable, r: usize, l: usize) -> i64 {
        match self {
            Conn::Matrix { nr, cells, .. } => cells[l * nr + r] as i64,
            Conn::Bigram { right, left, .. } => {
                let k = self.templates();
                let mut sum = 0i64;
                for p in 0..k {
                    let rf: Option<&str> = if r == 0 { Some("") } else { right[r - 1].get(p).map(|s| s.as_str()) };
                    let lf: Option<&str> = if l == 0 { Some("") } else { left[l - 1].get(p).map(|s| s.as_str()) };
                    if let (Some(rf), Some(lf)) = (rf, lf) {
                        if rf == "*" || lf == "*" {
                            continue;
                        }
                        if let Some(c) = tab.map.get(&(rf.to_string(), lf.to_string())) {
                            sum += *c;
                        }
                    }
                }
                sum
            }
        }
    }
    pub fn full_matrix(&self) -> Vec<i64> {
        let (nr, nl) = self.dims();
        let tab = self.cost_table();
        let mut m = vec![0i64; nr * nl];
        for l in 0..nl {
            for r in 0..nr {
                m[l * nr + r] = self.cost_with(&tab, r, l);
            }
        }
        m
    }
    pub fn matrix_def(&self, omit_zero: bool) -> String {
        let (nr, nl) = self.dims();
        let m = self.full_matrix();
        let mut s = format!("{} {}\n", nr, nl);
        for r in 0..nr {
            for l in 0..nl {
                let c = m[l * nr + r];
                if omit_zero && c == 0 {
                    continue;
                }
                s += &format!("{} {} {}\n", r, l, c);
            }
        }
        s
    }
    pub fn bigram_texts(&self) -> (String, String, String) {
        match self {
            Conn::Bigram { right, left, costs, .. } => {
                let rows = |rows: &Vec<Vec<String>>| {
                    let mut s = String::new();
                    for (i, row) in rows.iter().enumerate() {
                        let cells: Vec<String> = row.iter().map(|c| csv_cell(c, false)).collect();
                        s += &format!("{}\t{}\n", i + 1, cells.join(","));
                    }
                    s
                };
                let mut c = String::new();
                for (a, b, w) in costs {
                    c += &format!("{}/{}\t{}\n", a, b, w);
                }
                (rows(right), rows(left), c)
            }
            _ => (String::new(), String::new(), String::new()),
        }
    }
}

pub struct CostTable {
    pub map: HashMap<(String, String), i64>,
}

impl DictSpec {
    pub fn char_def(&self) -> String {
        let mut s = String::new();
        for &i in &self.def_order {
            let c = &self.cats[i];
            s += &format!("{} {} {} {}\n", c.name, c.invoke as u8, c.group as u8, c.length);
        }
        for (k, r) in self.ranges.iter().enumerate() {
            if r.lo == r.hi && k % 2 == 0 {
                s += &format!("0x{:04X}", r.lo);
            } else {
                s += &format!("0x{:04X}..0x{:04X}", r.lo, r.hi);
            }
            for &c in &r.cats {
                s += " ";
                s += &self.cats[c].name;
            }
            if k % 3 == 1 {
                s += " # c";
            }
            s += "\n";
        }
        s
    }
    pub fn unk_def(&self) -> String {
        let mut s = String::new();
        for u in &self.unk {
            s += &format!("{},{},{},{},{}\n", self.cats[u.cat].name, u.l, u.r, u.cost, u.feat);
        }
        s
    }
    pub fn lex_csv(&self) -> String {
        lex_csv(&self.lex)
    }
    pub fn cat_index(&self, name: &str) -> Option<usize> {
        self.cats.iter().position(|c| c.name == name)
    }
    /// (category set as indices, primary index) — last covering range line wins, DEFAULT otherwise.
    pub fn cinfo(&self, ch: char) -> (Vec<usize>, usize) {
        let c = ch as u32;
        let mut res: Option<&Range> = None;
        if c <= 0xFFFF {
            for r in &self.ranges {
                if r.lo <= c && c <= r.hi {
                    res = Some(r);
                }
            }
        }
        match res {
            Some(r) => {
                let mut set = vec![];
                for &x in &r.cats {
                    if !set.contains(&x) {
                        set.push(x);
                    }
                }
                (set, r.cats[0])
            }
            None => (vec![0], 0),
        }
    }
    /// categories that are the primary category of some character but have no unk.def entry
    pub fn uncovered_cats(&self) -> Vec<usize> {
        let mut v = vec![];
        for i in 0..self.cats.len() {
            if !self.unk.iter().any(|u| u.cat == i) {
                v.push(i);
            }
        }
        v
    }
    /// Applies id permutations: pl[old_left] = new_left, pr[old_right] = new_right (index 0 fixed).
    pub fn mapped(&self, pl: &[usize], pr: &[usize]) -> DictSpec {
        let mut d = self.clone();
        for u in &mut d.unk {
            u.l = pl[u.l as usize] as u16;
            u.r = pr[u.r as usize] as u16;
        }
        for w in &mut d.lex {
            w.l = pl[w.l as usize] as u16;
            w.r = pr[w.r as usize] as u16;
        }
        d.conn = match &self.conn {
            Conn::Matrix { nr, nl, cells } => {
                let mut c2 = vec![0i16; cells.len()];
                for l in 0..*nl {
                    for r in 0..*nr {
                        c2[pl[l] * nr + pr[r]] = cells[l * nr + r];
                    }
                }
                Conn::Matrix { nr: *nr, nl: *nl, cells: c2 }
            }
            Conn::Bigram { right, left, costs, dual } => {
                let mut r2 = right.clone();
                let mut l2 = left.clone();
                for (i, row) in right.iter().enumerate() {
                    r2[pr[i + 1] - 1] = row.clone();
                }
                for (i, row) in left.iter().enumerate() {
                    l2[pl[i + 1] - 1] = row.clone();
                }
                Conn::Bigram { right: r2, left: l2, costs: costs.clone(), dual: *dual }
            }
        };
        d
    }
}

pub fn map_rows(rows: &[LexRow], pl: &[usize], pr: &[usize]) -> Vec<LexRow> {
    rows.iter()
        .map(|w| LexRow { l: pl[w.l as usize] as u16, r: pr[w.r as usize] as u16, ..w.clone() })
        .collect()
}

/// Turns a permutation p[old] = new (p[0] = 0) into the iterator expected by
/// `map_connection_ids_from_iter`: the i-th item (1-origin) is the old id that receives new id i.
pub fn perm_to_iter(p: &[usize]) -> Vec<u16> {
    let mut v = vec![0u16; p.len() - 1];
    for old in 1..p.len() {
        v[p[old] - 1] = old as u16;
    }
    v
}

// ------------------------------------------------------------------------------------------
// reference analysis

#[derive(Clone, Debug, PartialEq, Eq, Hash, PartialOrd, Ord, Serialize)]
pub struct Cand {
    pub start: usize,
    pub end: usize,
    pub l: u16,
    pub r: u16,
    pub cost: i16,
    pub feat: String,
    /// 0 system, 1 user, 2 unknown
    pub kind: u8,
    /// index among the non-empty-surface rows of its lexicon (system/user); for unknown words the
    /// index of the entry in `unk`
    pub row: usize,
}

#[derive(Clone, Debug, Default)]
pub struct RefOut {
    /// optimal total cost including BOS and EOS connections; None if no complete path exists
    pub total: Option<i64>,
    /// number of optimal complete paths (saturating at u64::MAX / 4)
    pub n_opt: u64,
    /// candidates generated at each processed word start
    pub cands_at: Vec<Vec<Cand>>,
    /// word-start positions that were processed (reachable and not skipped)
    pub processed: Vec<bool>,
    /// boundary from which EOS is connected
    pub last_boundary: usize,
    /// a reachable position produced no candidate (uncovered category)
    pub dead_position: Option<usize>,
    /// branch coverage buckets of the unknown-word rule that were exercised
    pub buckets: Vec<&'static str>,
    /// number of connection-cost evaluations per id (C13): (left counts, right counts)
    pub conn_left: Vec<u64>,
    pub conn_right: Vec<u64>,
    /// largest absolute prefix cost seen (to respect the i32 precondition)
    pub max_abs: i64,
    /// for every boundary that was processed: the position where its words start (after skipped spaces)
    pub word_start: Vec<Option<usize>>,
}

pub struct RefDict<'a> {
    pub spec: &'a DictSpec,
    pub user: Option<&'a [LexRow]>,
    pub space_cat: Option<usize>,
    matrix: Vec<i64>,
    nr: usize,
    nl: usize,
}

impl<'a> RefDict<'a> {
    pub fn new(spec: &'a DictSpec, user: Option<&'a [LexRow]>) -> Self {
        let (nr, nl) = spec.conn.dims();
        RefDict { spec, user, space_cat: spec.cat_index("SPACE"), matrix: spec.conn.full_matrix(), nr, nl }
    }
    #[inline]
    pub fn conn(&self, r: u16, l: u16) -> i64 {
        self.matrix[l as usize * self.nr + r as usize]
    }
    pub fn dims(&self) -> (usize, usize) {
        (self.nr, self.nl)
    }

    pub fn analyze(&self, chars: &[char], opts: Opts) -> RefOut {
        let spec = self.spec;
        let n = chars.len();
        let mut out = RefOut {
            cands_at: vec![vec![]; n + 1],
            processed: vec![false; n + 1],
            conn_left: vec![0; self.nl],
            conn_right: vec![0; self.nr],
            word_start: vec![None; n + 1],
            ..Default::default()
        };
        if n == 0 {
            return out;
        }
        let infos: Vec<(Vec<usize>, usize)> = chars.iter().map(|&c| spec.cinfo(c)).collect();
        let share = |a: &Vec<usize>, b: &Vec<usize>| a.iter().any(|x| b.contains(x));
        let mut run = vec![1usize; n];
        for i in (0..n - 1).rev() {
            if share(&infos[i].0, &infos[i + 1].0) {
                run[i] = run[i + 1] + 1;
            }
        }
        // ends[b] = (right id, best prefix cost, number of best paths)
        let mut ends: Vec<Vec<(u16, i64, u64)>> = vec![vec![]; n + 1];
        ends[0].push((0, 0, 1));
        let sysrows: Vec<(usize, Vec<char>, &LexRow)> =
            spec.lex.iter().filter(|r| !r.surface.is_empty()).enumerate().map(|(i, r)| (i, r.surface.chars().collect(), r)).collect();
        let userrows: Vec<(usize, Vec<char>, &LexRow)> = match self.user {
            Some(u) => u.iter().filter(|r| !r.surface.is_empty()).enumerate().map(|(i, r)| (i, r.surface.chars().collect(), r)).collect(),
            None => vec![],
        };
        let mut p = 0usize;
        let mut last_boundary = 0usize;
        while p < n {
            if ends[p].is_empty() {
                p += 1;
                last_boundary = p;
                continue;
            }
            let mut w = p;
            if opts.ignore_space {
                if let Some(sc) = self.space_cat {
                    if infos[p].0.contains(&sc) {
                        w = p + run[p];
                        out.buckets.push("space_skipped");
                    }
                }
            }
            if w >= n {
                last_boundary = p;
                out.buckets.push("trailing_space");
                break;
            }
            let mut cands: Vec<Cand> = vec![];
            let mut matched = false;
            for (kind, rows) in [(1u8, &userrows), (0u8, &sysrows)] {
                for (i, sc, row) in rows.iter() {
                    if w + sc.len() <= n && chars[w..w + sc.len()] == sc[..] {
                        cands.push(Cand { start: w, end: w + sc.len(), l: row.l, r: row.r, cost: row.cost, feat: row.feat.clone(), kind, row: *i });
                        matched = true;
                    }
                }
            }
            let primary = infos[w].1;
            let cat = &spec.cats[primary];
            if matched && !cat.invoke {
                out.buckets.push("invoke0_lex_match_suppresses");
            } else {
                if matched {
                    out.buckets.push("invoke1_with_lex_match");
                }
                let mut lens: Vec<usize> = vec![];
                if cat.group {
                    if opts.mgl == 0 || run[w] - 1 <= opts.mgl {
                        lens.push(run[w]);
                        out.buckets.push(if run[w] > 1 { "group_run" } else { "group_run1" });
                    } else {
                        out.buckets.push("group_omitted_by_mgl");
                    }
                }
                let lim = (cat.length as usize).min(run[w]);
                if (cat.length as usize) > run[w] {
                    out.buckets.push("length_limited_by_run");
                }
                for i in 1..=lim {
                    if cat.group && i == run[w] {
                        out.buckets.push("dup_run_length_skipped");
                        continue;
                    }
                    lens.push(i);
                }
                if lim > 1 {
                    out.buckets.push("length_prefixes");
                }
                if lens.is_empty() && !matched {
                    lens.push(1);
                    out.buckets.push("fallback_single_char");
                }
                if infos[w].0.len() > 1 {
                    out.buckets.push("multi_category_char");
                }
                if (chars[w] as u32) > 0xFFFF {
                    out.buckets.push("astral_start");
                }
                for len in lens {
                    for (ui, u) in spec.unk.iter().enumerate() {
                        if u.cat == primary {
                            cands.push(Cand { start: w, end: w + len, l: u.l, r: u.r, cost: u.cost, feat: u.feat.clone(), kind: 2, row: ui });
                        }
                    }
                }
            }
            if cands.is_empty() && out.dead_position.is_none() {
                out.dead_position = Some(w);
            }
            for c in &cands {
                let mut best = i64::MAX;
                let mut cnt = 0u64;
                for &(r, cost, k) in &ends[p] {
                    let v = cost + self.conn(r, c.l);
                    out.conn_left[c.l as usize] += 1;
                    out.conn_right[r as usize] += 1;
                    if v < best {
                        best = v;
                        cnt = k;
                    } else if v == best {
                        cnt = cnt.saturating_add(k).min(u64::MAX / 4);
                    }
                }
                let tot = best + c.cost as i64;
                out.max_abs = out.max_abs.max(tot.abs()).max(best.abs());
                ends[c.end].push((c.r, tot, cnt));
            }
            out.processed[w] = true;
            out.word_start[p] = Some(w);
            out.cands_at[w] = cands;
            p = w + 1;
            last_boundary = p;
        }
        out.last_boundary = last_boundary;
        let mut best = i64::MAX;
        let mut cnt = 0u64;
        for &(r, cost, k) in &ends[last_boundary] {
            let v = cost + self.conn(r, 0);
            out.conn_left[0] += 1;
            out.conn_right[r as usize] += 1;
            if v < best {
                best = v;
                cnt = k;
            } else if v == best {
                cnt = cnt.saturating_add(k).min(u64::MAX / 4);
            }
        }
        if cnt > 0 {
            out.total = Some(best);
            out.n_opt = cnt;
            out.max_abs = out.max_abs.max(best.abs());
        }
        out
    }
}

impl<'a> RefDict<'a> {
    /// Second, deliberately different oracle for short sentences: enumerates EVERY complete
    /// sequence of candidates recursively (no dynamic programming) and returns the cheapest total
    /// including the connections from and to id 0. `None` if no complete sequence exists or the
    /// enumeration exceeds `limit` sequences.
    pub fn brute_force_min(&self, rout: &RefOut, limit: u64) -> Option<i64> {
        fn rec(d: &RefDict, rout: &RefOut, b: usize, prev_r: u16, cost: i64, best: &mut Option<i64>, budget: &mut u64) -> bool {
            if b == rout.last_boundary {
                let t = cost + d.conn(prev_r, 0);
                if best.map_or(true, |x| t < x) {
                    *best = Some(t);
                }
                if *budget == 0 {
                    return false;
                }
                *budget -= 1;
                return true;
            }
            let w = match rout.word_start.get(b).copied().flatten() {
                Some(w) => w,
                None => return true, // dead end
            };
            for c in &rout.cands_at[w] {
                if !rec(d, rout, c.end, c.r, cost + d.conn(prev_r, c.l) + c.cost as i64, best, budget) {
                    return false;
                }
            }
            true
        }
        let mut best = None;
        let mut budget = limit;
        if rec(self, rout, 0, 0, 0, &mut best, &mut budget) {
            best
        } else {
            None
        }
    }
}
