//! C14 (generated files = image of the model), C15 (model round trip), C16 (bigram vs matrix),
//! C17 (rewrite rules), C18 (template expansion and connection classes).
use crate::model::csv_cell;
use crate::real::*;
use crate::report::Ctx;
use crate::rng::{hash_bytes, Rng};
use serde_json::json;
use std::collections::{BTreeMap, HashMap};
use vibrato::dictionary::SystemDictionaryBuilder;
use vibrato::trainer::{Corpus, Model, Trainer, TrainerConfig};
use vibrato::verif::ModelView;

// ------------------------------------------------------------------------------------------
// independent reference: rewrite rules (linear scan) and template expansion

pub type Rule = (Vec<String>, Vec<String>);

pub fn pat_matches(p: &str, f: &str) -> bool {
    if p == "*" {
        true
    } else if p.len() >= 2 && p.starts_with('(') && p.ends_with(')') {
        p[1..p.len() - 1].split('|').any(|a| a == f)
    } else {
        p == f
    }
}

/// first rule, in file order, whose pattern matches position-wise as a prefix
pub fn ref_rewrite(rules: &[Rule], feats: &[String]) -> Option<Vec<String>> {
    for (pat, out) in rules {
        if pat.len() <= feats.len() && pat.iter().zip(feats).all(|(p, f)| pat_matches(p, f)) {
            return Some(
                out.iter()
                    .map(|o| {
                        if let Some(n) = o.strip_prefix('$').and_then(|d| if !d.is_empty() && d.bytes().all(|b| b.is_ascii_digit()) { d.parse::<usize>().ok() } else { None }) {
                            feats.get(n.wrapping_sub(1)).cloned().unwrap_or_else(|| "*".to_string())
                        } else {
                            o.clone()
                        }
                    })
                    .collect(),
            );
        }
    }
    None
}

/// Expands one template for one side letter ('F', 'L' or 'R'); None if a `%X?[i]` reference is
/// '*' or absent. `%t` (unigram only) is the category id.
pub fn ref_expand(template: &str, side: char, feats: &[String], cate: u32) -> Option<String> {
    let b: Vec<char> = template.chars().collect();
    let mut out = String::new();
    let mut i = 0;
    while i < b.len() {
        if b[i] == '%' {
            if side == 'F' && i + 1 < b.len() && b[i + 1] == 't' {
                out += &cate.to_string();
                i += 2;
                continue;
            }
            if i + 1 < b.len() && b[i + 1] == side {
                let mut j = i + 2;
                let optional = j < b.len() && b[j] == '?';
                if optional {
                    j += 1;
                }
                if j < b.len() && b[j] == '[' {
                    let mut k = j + 1;
                    let mut num = String::new();
                    while k < b.len() && b[k].is_ascii_digit() {
                        num.push(b[k]);
                        k += 1;
                    }
                    if !num.is_empty() && k < b.len() && b[k] == ']' {
                        let idx: usize = num.parse().unwrap();
                        let v = feats.get(idx).map(|s| s.as_str()).unwrap_or("*");
                        if optional && v == "*" {
                            return None;
                        }
                        out += v;
                        i = k + 1;
                        continue;
                    }
                }
            }
        }
        out.push(b[i]);
        i += 1;
    }
    Some(out)
}

// ------------------------------------------------------------------------------------------
// training-set generator

#[derive(Clone, Debug)]
pub struct TrainSet {
    pub cats: Vec<(String, bool, bool, u16)>,
    pub seed: Vec<(String, Vec<String>)>,
    pub unk: Vec<(usize, Vec<String>)>,
    pub unigram_t: Vec<String>,
    pub bigram_t: Vec<(String, String)>,
    pub rules: [Vec<Rule>; 3], // unigram, left, right
    pub corpus: Vec<Vec<(String, Vec<String>)>>,
    pub user: Vec<(String, u16, u16, i16, Vec<String>)>,
    pub max_iter: u64,
    pub lambda: f64,
    /// category (index, 0 = none) that the range 0x0000..0x0020 is assigned to in char.def
    pub zero_cat: usize,
}

// ('Ａ' lies behind the last range of char.def: DEFAULT)
const TCHARS: &[(char, usize)] = &[('a', 1), ('b', 1), ('c', 1), ('d', 1), ('あ', 2), ('い', 2), ('う', 2), ('漢', 3), ('字', 3), ('1', 4), ('2', 4), ('-', 0), ('。', 0), ('Ａ', 0)];
const TCATS: &[&str] = &["DEFAULT", "ALPHA", "HIRAGANA", "KANJI", "NUMERIC"];

fn feat_text(cells: &[String]) -> String {
    cells.iter().map(|c| csv_cell(c, false)).collect::<Vec<_>>().join(",")
}

impl TrainSet {
    pub fn cat_of(&self, c: char) -> usize {
        let k = TCHARS.iter().find(|x| x.0 == c).map(|x| x.1).unwrap_or(0);
        if k < self.cats.len() {
            k
        } else {
            0
        }
    }
    pub fn char_def(&self) -> String {
        let mut s = String::new();
        for (n, i, g, l) in &self.cats {
            s += &format!("{} {} {} {}\n", n, *i as u8, *g as u8, l);
        }
        if self.zero_cat != 0 && self.zero_cat < self.cats.len() {
            s += &format!("0x0000..0x0020 {}\n", self.cats[self.zero_cat].0);
        }
        for (c, k) in TCHARS {
            if *k != 0 && *k < self.cats.len() {
                s += &format!("0x{:04X} {}\n", *c as u32, self.cats[*k].0);
            }
        }
        s
    }
    pub fn seed_csv(&self) -> String {
        self.seed.iter().map(|(s, f)| format!("{},0,0,0,{}\n", csv_cell(s, false), feat_text(f))).collect()
    }
    pub fn unk_def(&self) -> String {
        self.unk.iter().map(|(c, f)| format!("{},0,0,0,{}\n", self.cats[*c].0, feat_text(f))).collect()
    }
    pub fn feature_def(&self) -> String {
        let mut s = String::from("# generated\n");
        for t in &self.unigram_t {
            s += &format!("UNIGRAM {}\n", t);
        }
        for (l, r) in &self.bigram_t {
            s += &format!("BIGRAM {}/{}\n", l, r);
        }
        s
    }
    pub fn rewrite_def(&self) -> String {
        let mut s = String::new();
        for (name, rules) in [("[unigram rewrite]", &self.rules[0]), ("[left rewrite]", &self.rules[1]), ("[right rewrite]", &self.rules[2])] {
            s += name;
            s.push('\n');
            for (p, o) in rules.iter() {
                s += &format!("{}\t{}\n", p.join(","), o.join(","));
            }
        }
        s
    }
    pub fn corpus_txt(&self) -> String {
        let mut s = String::new();
        for sent in &self.corpus {
            for (surf, f) in sent {
                s += &format!("{}\t{}\n", surf, feat_text(f));
            }
            s += "EOS\n";
        }
        s
    }
    pub fn user_csv(&self) -> String {
        self.user.iter().map(|(s, l, r, c, f)| format!("{},{},{},{},{}\n", csv_cell(s, false), l, r, c, feat_text(f))).collect()
    }
    pub fn texts(&self) -> serde_json::Value {
        json!({"char.def": self.char_def(), "train_lex.csv": self.seed_csv(), "train_unk.def": self.unk_def(), "feature.def": self.feature_def(),
               "rewrite.def": self.rewrite_def(), "corpus.txt": self.corpus_txt(), "user.csv": self.user_csv(), "max_iter": self.max_iter, "lambda": self.lambda})
    }
}

fn gen_cells(rng: &mut Rng, tag: usize) -> Vec<String> {
    let pos = ["名詞", "動詞", "助詞", "記号", "a", "b"];
    let sub = ["一般", "*", "固有", "x"];
    // now and then a long row (feature indices of two digits, as in UniDic)
    let n = if rng.chance(0.12) { 11 + rng.below(3) } else { 2 + rng.below(4) };
    let mut v = vec![rng.pick(&pos).to_string(), rng.pick(&sub).to_string()];
    if rng.chance(0.02) {
        // a long value without comma (expansions such as `B:%L[1],%L?[2]` then have their first comma far behind)
        v[1] = "長".repeat(690 + rng.below(20));
    }
    for k in 2..n {
        v.push(match rng.below(7) {
            6 => ["\u{3000}", " s", "s ", ""][rng.below(4)].to_string(),
            0 => "*".to_string(),
            1 => format!("q,{}", tag % 3),
            2 => format!("ヨミ{}", tag % 5),
            3 => "a".to_string(),
            _ => format!("c{}", (tag + k) % 4),
        });
    }
    v
}

pub fn gen_rules_n(rng: &mut Rng, below: usize, maxlen: usize) -> Vec<Rule> {
    let n = rng.below(below);
    let mut rules = gen_rules(rng, n, maxlen);
    if rng.chance(0.2) {
        // a rule and a longer rule extending its pattern, in either order (the first registered one that matches
        // applies; a row as long as the shorter pattern is matched by the shorter rule only)
        let base = gen_rules(rng, 1, 2).remove(0).0;
        let mut longer = base.clone();
        longer.push(["*", "a", "一般"][rng.below(3)].to_string());
        let pair = vec![(base, vec!["SHORT".to_string(), "$1".to_string()]), (longer, vec!["LONG".to_string(), "$2".to_string(), "$1".to_string()])];
        let at = rng.below(rules.len() + 1);
        if rng.chance(0.5) {
            rules.splice(at..at, pair);
        } else {
            rules.splice(at..at, pair.into_iter().rev());
        }
    }
    rules
}

pub fn gen_rules(rng: &mut Rng, n: usize, maxlen: usize) -> Vec<Rule> {
    // (U+3000 and U+00A0 are text, not separators: the columns of a rule are separated by ASCII blanks; they
    // never stand at the start or the end of a line here, where the reader trims the line)
    let pats = ["*", "a", "b", "(a|b)", "名詞", "(名詞|動詞)", "一般", "*", "(a)", "(名詞)", "(b|a|c)", "(a|\u{3000})", "(\u{3000}|a)", "全\u{3000}角", "a", "b", "*", "名詞", "(a|b)", "*a", "*名詞", "a*", "((a)|(b))", "(a|(b))", "((名詞)|b)"];
    let outs = ["$1", "$2", "$3", "$4", "X", "a", "*", "$9", "$10", "$12", "$20", "$101", "全\u{3000}角", "y\u{a0}z", "$1", "$2", "X"];
    (0..n)
        .map(|_| {
            let pl = 1 + rng.below(maxlen);
            let p: Vec<String> = (0..pl).map(|_| rng.pick(&pats).to_string()).collect();
            let ol = 1 + rng.below(4);
            let o: Vec<String> = (0..ol).map(|_| rng.pick(&outs).to_string()).collect();
            (p, o)
        })
        .collect()
}

pub fn gen_templates(rng: &mut Rng) -> (Vec<String>, Vec<(String, String)>) {
    let nu = 1 + rng.below(4);
    let mut u = vec![];
    for i in 0..nu {
        u.push(match rng.below(8) {
            0 => format!("U{i}:%F[0]"),
            1 => format!("U{i}:%F[0],%F[1]"),
            2 => format!("U{i}:%F[0],%F?[2]"),
            3 => format!("U{i}:%t"),
            4 => format!("U{i}:%F[1],%t,%F?[3]"),
            5 => format!("U{i}:%F?[1],%F?[2]"),
            6 => format!("(%F[0])U{i}"),
            _ => format!("U{i}:%F[{}]", [0usize, 1, 2, 3, 4, 5, 10, 11][rng.below(8)]),
        });
    }
    let nb = *rng.pick(&[1usize, 2, 3, 4, 5, 8, 9, 10]);
    let mut b = vec![];
    for i in 0..nb {
        let mk = |rng: &mut Rng, s: char| -> String {
            match rng.below(12) {
                0 => format!("B{i}:%{s}[0]"),
                1 => format!("B{i}:%{s}[0],%{s}[1]"),
                2 => format!("B{i}:%{s}?[2]"),
                3 => format!("B{i}:%{s}[1],%{s}?[2]"),
                4 => format!("B{i}:%{s}[{}]", [0usize, 1, 2, 3, 4, 5, 10, 11, 12][rng.below(9)]),
                5 if rng.chance(0.3) => format!("B{i}:%{s}[0],%{s}?[{}]", 10 + rng.below(3)),
                5 => format!("B{i}:%{s}?[1],%{s}?[2]"),
                6 => format!("B{i}:%{s}?[0],%{s}[1],%{s}?[3]"),
                7 => format!("[%{s}[0]|%{s}[1]]B{i}"),
                8 => format!("B{i}:%{s}[0]-tail"),
                9 => format!("CONST{i}"),
                10 if rng.chance(0.5) => format!("%{s}[{}]", rng.below(4)), // no literal text at all
                10 => format!("B#{i}:%{s}[0]"),
                _ => format!("B{i}:%{s}[1]"),
            }
        };
        b.push((mk(rng, 'L'), mk(rng, 'R')));
    }
    if rng.chance(0.1) {
        // the same template line twice: two positions
        let again = b[rng.below(b.len())].clone();
        b.push(again);
    }
    if rng.chance(0.05) {
        let again = u[rng.below(u.len())].clone();
        u.push(again);
    }
    (u, b)
}

pub fn gen_trainset(rng: &mut Rng) -> TrainSet {
    let ncat = 2 + rng.below(4);
    let cats: Vec<(String, bool, bool, u16)> = (0..ncat).map(|i| (TCATS[i].to_string(), rng.chance(0.5), rng.chance(0.6), rng.below(4) as u16)).collect();
    let chars: Vec<char> = TCHARS.iter().map(|x| x.0).collect();
    let nseed = 3 + rng.below(24);
    let mut seed: Vec<(String, Vec<String>)> = vec![];
    for i in 0..nseed {
        let surf = if !seed.is_empty() && rng.chance(0.15) {
            seed[rng.below(seed.len())].0.clone()
        } else {
            let len = 1 + rng.below(3);
            let mut s: String = (0..len).map(|_| chars[rng.below(chars.len().min(9))]).collect();
            if rng.chance(0.05) {
                s.push(',');
            }
            if rng.chance(0.06) {
                // a double quote at the start, in the middle or at the end of the surface
                match rng.below(3) {
                    0 => s.insert(0, '"'),
                    1 => s.push('"'),
                    _ => s = format!("{}\"{}", &s[..s.char_indices().nth(1).map(|x| x.0).unwrap_or(s.len())], &s[s.char_indices().nth(1).map(|x| x.0).unwrap_or(s.len())..]),
                }
            }
            s
        };
        seed.push((surf, gen_cells(rng, i)));
    }
    let mut unk = vec![];
    for c in 0..ncat {
        for k in 0..1 + rng.below(2) {
            let mut f = gen_cells(rng, c * 3 + k);
            if rng.chance(0.7) {
                let i = rng.below(f.len());
                f[i] = "*".into();
            }
            unk.push((c, f));
        }
    }
    if rng.chance(0.1) {
        // a seed unk.def listing one row twice
        let again = unk[rng.below(unk.len())].clone();
        unk.push(again);
    }
    if rng.chance(0.3) {
        rng.shuffle(&mut unk);
    }
    let (unigram_t, bigram_t) = gen_templates(rng);
    let rules = [gen_rules_n(rng, 4, 3), gen_rules_n(rng, 4, 3), gen_rules_n(rng, 4, 3)];
    let nsent = 1 + rng.below(14);
    let mut corpus = vec![];
    for _ in 0..nsent {
        let nt = 1 + rng.below(6);
        let mut sent = vec![];
        for _ in 0..nt {
            if rng.chance(0.85) {
                let (s, f) = &seed[rng.below(seed.len())];
                sent.push((s.clone(), f.clone()));
            } else {
                // an out-of-lexicon token carrying an unknown entry's feature
                let c = chars[rng.below(chars.len())];
                let len = 1 + rng.below(2);
                let s: String = std::iter::repeat(c).take(len).collect();
                let (_, f) = &unk[rng.below(unk.len())];
                let mut f = f.clone();
                if rng.chance(0.15) {
                    // fewer cells than the unknown-word entry it otherwise agrees with
                    f.truncate(1 + rng.below(f.len()));
                }
                sent.push((s, f));
            }
        }
        corpus.push(sent);
    }
    let mut user = vec![];
    if rng.chance(0.6) {
        for i in 0..1 + rng.below(4) {
            let len = 1 + rng.below(3);
            let mut s: String = (0..len).map(|_| chars[rng.below(chars.len())]).collect();
            if rng.chance(0.1) {
                let c = *rng.pick(&['"', ',', '\'']);
                if rng.chance(0.5) {
                    s.insert(0, c);
                } else {
                    s.push(c);
                }
            }
            let mut f = if rng.chance(0.5) { seed[rng.below(seed.len())].1.clone() } else { gen_cells(rng, 100 + i) };
            if rng.chance(0.2) {
                // the feature columns of an unknown-word entry, for a surface that starts in that entry's category
                let (c, uf) = &unk[rng.below(unk.len())];
                if let Some((ch, _)) = TCHARS.iter().find(|x| x.1 == *c && x.1 < ncat) {
                    s = format!("{ch}{ch}");
                    f = uf.clone();
                }
            } else if rng.chance(0.2) && !user.is_empty() {
                // the same feature text as the previous user row, for a surface of another character category
                let prev: &(String, u16, u16, i16, Vec<String>) = user.last().unwrap();
                f = prev.4.clone();
                let pc = prev.0.chars().next().unwrap_or('a');
                if let Some((ch, _)) = TCHARS.iter().find(|x| x.0 != pc && TCHARS.iter().find(|y| y.0 == pc).map_or(true, |y| y.1 != x.1)) {
                    s = format!("{ch}{}", s);
                }
            }
            if rng.chance(0.5) {
                user.push((s, 0, 0, 0, f));
            } else {
                user.push((s, rng.below(2) as u16, rng.below(2) as u16, rng.range(-200, 200) as i16, f));
            }
        }
    }
    let mut rules = rules;
    let mut seed = seed;
    let mut corpus = corpus;
    if rng.chance(0.3) {
        // the word that opens the corpus gets a feature row ENDING WITH AN EMPTY CELL (`...,x,`), and every section
        // a first rule whose pattern is exactly as long as that row: the rule applies only if the empty last cell
        // counts as a feature, and its output repeats that last feature
        if let Some(first) = corpus.first().and_then(|s: &Vec<(String, Vec<String>)>| s.first()).cloned() {
            if seed.iter().any(|r| *r == first) && first.1.len() <= 6 {
                let mut new = first.clone();
                if new.1.last().map_or(true, |c| !c.is_empty()) {
                    new.1.push(String::new());
                }
                let n = new.1.len();
                for r in seed.iter_mut().filter(|r| **r == first) {
                    *r = new.clone();
                }
                for t in corpus.iter_mut().flatten().filter(|t| **t == first) {
                    *t = new.clone();
                }
                for sec in rules.iter_mut() {
                    sec.insert(0, (vec!["*".to_string(); n], vec!["TRAIL".to_string(), "$1".to_string(), format!("${n}"), "end".to_string()]));
                }
            }
        }
    }
    let zero_cat = if rng.chance(0.2) { 1 + rng.below(ncat - 1) } else { 0 };
    TrainSet { cats, seed, unk, unigram_t, bigram_t, rules, corpus, user, max_iter: 3 + rng.below(20) as u64, lambda: *rng.pick(&[0.001, 0.01, 0.05, 0.5, 50.0]), zero_cat }
}

/// True if no seed/unknown/corpus/user word yields any left-word (%L) bigram feature (every BIGRAM
/// template's left part is suppressed by an optional reference for every word). rucrf's merge then indexes
/// its empty bigram table (known finding of C14).
pub fn no_bigram_feature(ts: &TrainSet) -> bool {
    let mut rows: Vec<&Vec<String>> = ts.seed.iter().map(|x| &x.1).collect();
    rows.extend(ts.unk.iter().map(|x| &x.1));
    rows.extend(ts.corpus.iter().flatten().map(|x| &x.1));
    rows.extend(ts.user.iter().map(|x| &x.4));
    for cells in rows {
        let lf = ref_rewrite(&ts.rules[1], cells).unwrap_or_else(|| cells.clone());
        let rf = ref_rewrite(&ts.rules[2], cells).unwrap_or_else(|| cells.clone());
        let _ = &rf;
        for t in &ts.bigram_t {
            // rucrf's bigram table is indexed by the feature of the LEFT word of a pair
            if ref_expand(&t.0, 'L', &lf, 0).is_some() {
                return false;
            }
        }
    }
    true
}

pub const KNOWN_NO_BIGRAM: &str = "C14:write_dictionary:panic:rucrf-merge-on-empty-bigram-table";

/// Trains in a helper thread with a generous wall-clock limit: rucrf's optimiser (argmin L-BFGS with
/// a More-Thuente line search) was observed not to terminate on a few generated configurations
/// (C16 thorough, seed 1, shard 4, case 581). Training that does not finish is not a trained
/// model, so no property speaks about it; the case is counted and skipped, the runaway thread is
/// abandoned (it ends with the shard process).
pub fn train(ts: &TrainSet) -> Result<Model, String> {
    let (tx, rx) = std::sync::mpsc::channel();
    let ts2 = ts.clone();
    std::thread::spawn(move || {
        let _ = tx.send(train_blocking(&ts2));
    });
    match rx.recv_timeout(std::time::Duration::from_secs(60)) {
        Ok(r) => r,
        Err(_) => Err("timeout: training did not finish within 60 s".to_string()),
    }
}

pub fn train_blocking(ts: &TrainSet) -> Result<Model, String> {
    let r = guarded(|| -> Result<Model, String> {
        let config = TrainerConfig::from_readers(ts.seed_csv().as_bytes(), ts.char_def().as_bytes(), ts.unk_def().as_bytes(), ts.feature_def().as_bytes(), ts.rewrite_def().as_bytes()).map_err(|e| format!("config: {e}"))?;
        let corpus = Corpus::from_reader(ts.corpus_txt().as_bytes()).map_err(|e| format!("corpus: {e}"))?;
        let trainer = Trainer::new(config).map_err(|e| format!("trainer: {e}"))?.regularization_cost(ts.lambda).max_iter(ts.max_iter).num_threads(1);
        trainer.train(corpus).map_err(|e| format!("train: {e}"))
    });
    match r {
        Ok(r) => r,
        Err(p) => Err(format!("panic: {p}")),
    }
}

/// C19, last clause: what the tokenizer prints can be fed to the trainer. A dictionary is compiled from the seed
/// files of a training set (plus a user lexicon whose rows have fewer feature cells than the unknown-word entries
/// they agree with), random sentences are tokenized, the MeCab-style lines are parsed as a corpus (tokens must be
/// the tokenizer's) and the corpus is given to Trainer::train with the same seed files: no panic.
pub fn c19_feed_trainer(ctx: &mut Ctx, rng: &mut Rng) {
    let ts = gen_trainset(rng);
    let chars: Vec<char> = TCHARS.iter().map(|x| x.0).collect();
    let mut user = String::new();
    for _ in 0..rng.below(4) {
        let s: String = (0..1 + rng.below(3)).map(|_| chars[rng.below(chars.len())]).collect();
        let f = if rng.chance(0.6) { ts.unk[rng.below(ts.unk.len())].1.clone() } else { ts.seed[rng.below(ts.seed.len())].1.clone() };
        let keep = 1 + rng.below(f.len());
        user += &format!("{},0,0,0,{}\n", csv_cell(&s, false), feat_text(&f[..keep]));
    }
    let d = match build_from_texts(ts.seed_csv().as_bytes(), ts.char_def().as_bytes(), ts.unk_def().as_bytes(), &ConnTexts::Matrix(b"1 1\n0 0 0\n".to_vec())) {
        BuildOutcome::Ok(d) => d,
        _ => {
            ctx.bucket("feed_trainer_dictionary_not_built");
            return;
        }
    };
    let d = if user.is_empty() {
        d
    } else {
        let u = user.clone();
        match guarded(move || d.reset_user_lexicon_from_reader(Some(u.as_bytes())).map_err(|e| e.to_string())) {
            Ok(Ok(d)) => d,
            _ => {
                ctx.bucket("feed_trainer_dictionary_not_built");
                return;
            }
        }
    };
    let tok = vibrato::Tokenizer::new(d);
    let mut w = tok.new_worker();
    let mut text = String::new();
    let mut want: Vec<Vec<(String, String)>> = vec![];
    for _ in 0..1 + rng.below(6) {
        let s: String = (0..1 + rng.below(8)).map(|_| chars[rng.below(chars.len())]).collect();
        let toks = match tokenize(&mut w, &s) {
            Ok(t) => t,
            Err(_) => return, // (uncovered category etc.: C01's business)
        };
        for t in &toks {
            text += &format!("{}\t{}\n", t.surface, t.feat);
        }
        text += "EOS\n";
        want.push(toks.iter().map(|t| (t.surface.clone(), t.feat.clone())).collect());
    }
    let cj = |d: String| json!({"training_files": ts.texts(), "user.csv": user, "tokenizer_output": text, "detail": d});
    ctx.eval();
    match guarded(|| Corpus::from_reader(text.as_bytes()).map_err(|e| e.to_string())) {
        Ok(Ok(c)) => {
            let got: Vec<Vec<(String, String)>> = c.iter().map(|e| e.tokens().iter().map(|w| (w.surface().to_string(), w.feature().to_string())).collect()).collect();
            if got != want {
                ctx.violation("tokenizer_output_parses_to_different_tokens", "C19:tokenizer_output_parses_to_different_tokens", format!("{:?} vs {:?}", got, want), cj(String::new()));
                return;
            }
        }
        Ok(Err(e)) | Err(e) => {
            ctx.violation("tokenizer_output_rejected_as_corpus", "C19:tokenizer_output_rejected_as_corpus", e, cj(String::new()));
            return;
        }
    }
    let (tx, rx) = std::sync::mpsc::channel();
    let (ts2, text2) = (ts.clone(), text.clone());
    std::thread::spawn(move || {
        crate::real::install_thread_panic_state();
        let r = guarded(|| -> Result<(), String> {
            let config = TrainerConfig::from_readers(ts2.seed_csv().as_bytes(), ts2.char_def().as_bytes(), ts2.unk_def().as_bytes(), ts2.feature_def().as_bytes(), ts2.rewrite_def().as_bytes()).map_err(|e| format!("config: {e}"))?;
            let corpus = Corpus::from_reader(text2.as_bytes()).map_err(|e| format!("corpus: {e}"))?;
            let trainer = Trainer::new(config).map_err(|e| format!("trainer: {e}"))?.regularization_cost(0.05).max_iter(2).num_threads(1);
            trainer.train(corpus).map(|_| ()).map_err(|e| format!("train: {e}"))
        });
        let _ = tx.send(r);
    });
    match rx.recv_timeout(std::time::Duration::from_secs(60)) {
        Ok(Ok(Ok(()))) => ctx.bucket("tokenizer_output_accepted_by_trainer"),
        Ok(Ok(Err(e))) => {
            ctx.bucket("trainer_returned_err_on_tokenizer_output");
            ctx.note(format!("trainer: {e}"));
        }
        Ok(Err(p)) => ctx.violation("trainer_panicked_on_tokenizer_output", &format!("C19:train:{}", panic_class(&p)), p, cj(String::new())),
        Err(_) => ctx.bucket("training_timeout_skipped"),
    }
}

#[derive(Default, Clone, PartialEq, Debug)]
pub struct Files {
    pub lex: Vec<u8>,
    pub matrix: Vec<u8>,
    pub unk: Vec<u8>,
    pub user: Vec<u8>,
    pub bleft: Vec<u8>,
    pub bright: Vec<u8>,
    pub bcost: Vec<u8>,
}

pub fn generate(model: &mut Model) -> Result<Files, String> {
    let mut f = Files::default();
    let r = guarded(|| -> Result<(), String> {
        model.write_dictionary(&mut f.lex, &mut f.matrix, &mut f.unk, &mut f.user).map_err(|e| format!("write_dictionary: {e}"))?;
        model.write_bigram_details(&mut f.bleft, &mut f.bright, &mut f.bcost).map_err(|e| format!("write_bigram_details: {e}"))?;
        Ok(())
    });
    match r {
        Ok(Ok(())) => Ok(f),
        Ok(Err(e)) => Err(e),
        Err(p) => Err(format!("panic: {p}")),
    }
}

fn sorted_lines(b: &[u8]) -> Vec<String> {
    let mut v: Vec<String> = String::from_utf8_lossy(b).lines().map(|s| s.to_string()).collect();
    v.sort();
    v
}

/// Splits "f1,f2,f3,f4,rest" with CSV quoting honoured in the first four fields.
pub fn split4(line: &str) -> Option<(Vec<String>, String)> {
    let b: Vec<char> = line.chars().collect();
    let mut i = 0;
    let mut fields = vec![];
    for _ in 0..4 {
        let mut f = String::new();
        if i < b.len() && b[i] == '"' {
            i += 1;
            loop {
                if i >= b.len() {
                    return None;
                }
                if b[i] == '"' {
                    if i + 1 < b.len() && b[i + 1] == '"' {
                        f.push('"');
                        i += 2;
                    } else {
                        i += 1;
                        break;
                    }
                } else {
                    f.push(b[i]);
                    i += 1;
                }
            }
        } else {
            while i < b.len() && b[i] != ',' {
                f.push(b[i]);
                i += 1;
            }
        }
        if i >= b.len() || b[i] != ',' {
            return None;
        }
        i += 1;
        fields.push(f);
    }
    Some((fields, b[i..].iter().collect()))
}

fn scaled(w: f64, max: f64) -> (i16, i16) {
    // the documented formula, in both association orders
    ((-w * (32767.0 / max)) as i16, (-w * 32767.0 / max) as i16)
}

fn view_max(v: &ModelView) -> f64 {
    let mut m = 0f64;
    for l in &v.labels {
        m = m.max(l.0.abs());
    }
    for row in &v.matrix {
        for &(_, w) in row {
            m = m.max(w.abs());
        }
    }
    m
}

// ---------------------------------------------------------------- C14

pub fn c14_case(ctx: &mut Ctx, rng: &mut Rng) {
    let bundled = ctx.index == 0;
    let ts = gen_trainset(rng);
    let (mut model, desc) = if bundled {
        match train_bundled() {
            Some(m) => (m, json!({"training_set": "bundled vibrato/src/tests/resources (train_lex.csv, char.def, train_unk.def, feature.def, rewrite.def, corpus.txt, user.csv)"})),
            None => return,
        }
    } else {
        match train(&ts) {
            Ok(m) => (m, ts.texts()),
            Err(e) => {
                if e.starts_with("timeout") {
                    ctx.bucket("training_did_not_terminate_skipped");
                    ctx.note(format!("training did not terminate: index {}", ctx.index));
                } else if e.starts_with("panic") {
                    ctx.bucket("training_panicked");
                    ctx.note(format!("training panicked: {e}"));
                } else {
                    ctx.bucket("training_failed");
                    ctx.note(e);
                }
                return;
            }
        }
    };
    ctx.bucket("training_succeeded");
    let user_csv = if bundled { std::fs::read_to_string("/repo/vibrato/src/tests/resources/user.csv").unwrap_or_default() } else { ts.user_csv() };
    let with_user = !user_csv.is_empty();
    if rng.chance(0.3) {
        // as the `dictgen` tool does: the model is stored and read back before anything else happens to it
        let mut bytes = vec![];
        let r = guarded(|| model.write_model(&mut bytes).map_err(|e| e.to_string())).and_then(|r| r).and_then(|_| guarded(|| Model::read_model(bytes.as_slice()).map_err(|e| e.to_string())).and_then(|r| r));
        match r {
            Ok(m2) => {
                model = m2;
                ctx.bucket("model_stored_and_read_back_first");
            }
            Err(e) => {
                ctx.note(format!("model round trip failed (C15's business): {e}"));
                return;
            }
        }
    }
    if with_user && rng.chance(0.4) {
        // an export before the user lexicon is registered must not leak into the later export
        if generate(&mut model).is_ok() {
            ctx.bucket("exported_once_before_user_lexicon");
        }
    }
    if with_user {
        if let Err(e) = guarded(|| model.read_user_lexicon(user_csv.as_bytes()).map_err(|e| e.to_string())).and_then(|r| r) {
            ctx.violation("read_user_lexicon_failed", "C14:read_user_lexicon_failed", e, desc.clone());
            return;
        }
        ctx.bucket("with_user_lexicon");
    }
    let view = match guarded(|| vibrato::verif::model_view(&mut model).map_err(|e| e.to_string())).and_then(|r| r) {
        Ok(v) => v,
        Err(e) => {
            // the hook merges the model like the writers do; let the real writer speak
            match generate(&mut model) {
                Err(e2) if vibrato::verif::model_bigram_rows(&model) == 0 && e2.contains("rucrf") && e2.contains("the len is 0") => ctx.violation("generation_failed", KNOWN_NO_BIGRAM, format!("{e2}; the trained model's bigram weight table has no row at all (not even the BOS row), and a label with a right-word feature was added afterwards"), desc.clone()),
                Err(e2) => ctx.violation("generation_failed", "C14:generation_failed", e2, desc.clone()),
                Ok(_) => ctx.note(format!("model_view failed but generation succeeded: {e}")),
            }
            return;
        }
    };
    // the ids written to the files name merged classes of feature ids: a feature id must stand for one string
    for (side, table) in [("left", &view.left_feature_ids), ("right", &view.right_feature_ids)] {
        let mut seen: HashMap<u32, &String> = HashMap::new();
        for (string, id) in table.iter() {
            if let Some(other) = seen.insert(*id, string) {
                ctx.violation("feature_id_stands_for_two_strings", "C14:feature_id_stands_for_two_strings", format!("{side}-context feature id {id} is assigned to both {:?} and {:?}, so words with different features are merged into one connection class", other, string), desc.clone());
                return;
            }
        }
    }
    let files = match generate(&mut model) {
        Ok(f) => f,
        Err(e) => {
            if vibrato::verif::model_bigram_rows(&model) == 0 && e.contains("rucrf") && e.contains("the len is 0") {
                ctx.violation("generation_failed", KNOWN_NO_BIGRAM, format!("{e}; the trained model's bigram weight table has no row at all (not even the BOS row), and a label with a right-word feature was added afterwards"), desc.clone());
            } else {
                ctx.violation("generation_failed", "C14:generation_failed", e, desc.clone());
            }
            return;
        }
    };
    ctx.eval();
    let max = view_max(&view);
    let lex = String::from_utf8_lossy(&files.lex).to_string();
    let unk = String::from_utf8_lossy(&files.unk).to_string();
    let matrix = String::from_utf8_lossy(&files.matrix).to_string();
    let user = String::from_utf8_lossy(&files.user).to_string();
    let cj = |d: &str| json!({"training": desc, "lex.csv": lex, "unk.def": unk, "matrix.def": matrix.chars().take(2000).collect::<String>(), "user.csv": user, "detail": d});
    let nsurf = view.surfaces.len();
    let cost_ok = |w: f64, c: i64| -> bool {
        if max == 0.0 {
            return true;
        }
        let (a, b) = scaled(w, max);
        c == a as i64 || c == b as i64
    };
    // matrix header
    let mut mlines = matrix.lines();
    let header: Vec<usize> = mlines.next().unwrap_or("").split(' ').filter_map(|x| x.parse().ok()).collect();
    let (nr, nl) = (view.right_conn_to_left_feats.len() + 1, view.left_conn_to_right_feats.len() + 1);
    if header != vec![nr, nl] {
        ctx.violation("matrix_header_wrong", "C14:matrix_header_wrong", format!("header {:?} but the model has {} right and {} left connection classes (+1 for BOS/EOS)", header, nr - 1, nl - 1), cj(""));
        return;
    }
    // matrix body = trunc(-w * scale) of every merged cell, sorted
    let mut want_cells: Vec<(usize, usize, f64)> = vec![];
    for (r, row) in view.matrix.iter().enumerate() {
        for &(l, w) in row {
            want_cells.push((r, l as usize, w));
        }
    }
    let got_cells: Vec<Vec<i64>> = mlines.filter(|l| !l.is_empty()).map(|l| l.split(' ').filter_map(|x| x.parse().ok()).collect()).collect();
    if got_cells.len() != want_cells.len() {
        ctx.violation("matrix_body_wrong", "C14:matrix_body_wrong", format!("{} lines but the merged model has {} non-zero cells", got_cells.len(), want_cells.len()), cj(""));
        return;
    }
    for (g, w) in got_cells.iter().zip(&want_cells) {
        if g.len() != 3 || g[0] as usize != w.0 || g[1] as usize != w.1 || !cost_ok(w.2, g[2]) || g[0] as usize >= nr || g[1] as usize >= nl {
            ctx.violation("matrix_body_wrong", "C14:matrix_body_wrong", format!("line {:?} but the merged cell is (right {}, left {}, weight {}) -> cost {:?}", g, w.0, w.1, w.2, scaled(w.2, max)), cj(""));
            return;
        }
    }
    // lex.csv
    let llines: Vec<&str> = lex.lines().collect();
    if llines.len() != nsurf {
        ctx.violation("lex_row_count", "C14:lex_row_count", format!("{} rows for {} seed rows", llines.len(), nsurf), cj(""));
        return;
    }
    let mut emitted: Vec<(f64, i64)> = vec![];
    for (i, line) in llines.iter().enumerate() {
        let (w, l, r) = view.labels[i];
        let ok = match split4(line) {
            Some((f, rest)) => {
                let c: i64 = f[3].parse().unwrap_or(i64::MAX);
                emitted.push((w, c));
                f[0] == view.surfaces[i] && f[1] == l.to_string() && f[2] == r.to_string() && cost_ok(w, c) && rest == view.features[i] && (l as usize) < nl && (r as usize) < nr && c >= i16::MIN as i64 && c <= i16::MAX as i64
            }
            None => false,
        };
        if !ok {
            ctx.violation("lex_row_wrong", "C14:lex_row_wrong", format!("row {i}: {:?} but the model says surface {:?}, left {l}, right {r}, weight {w} -> cost {:?}, feature {:?}", line, view.surfaces[i], scaled(w, max), view.features[i]), cj(""));
            return;
        }
    }
    // unk.def: one row per seed unknown entry, grouped in char.def category order (seed order inside)
    let ulines: Vec<&str> = unk.lines().collect();
    if ulines.len() != view.unk_entries.len() {
        ctx.violation("unk_row_count", "C14:unk_row_count", format!("{} rows for {} unknown entries", ulines.len(), view.unk_entries.len()), cj(""));
        return;
    }
    if !bundled {
        let mut order: Vec<usize> = (0..ts.unk.len()).collect();
        order.sort_by_key(|&i| ts.unk[i].0);
        let want: Vec<(String, String)> = order.iter().map(|&i| (ts.cats[ts.unk[i].0].0.clone(), feat_text(&ts.unk[i].1))).collect();
        let got: Vec<(String, String)> = ulines.iter().filter_map(|l| split4(l)).map(|(f, rest)| (f[0].clone(), rest)).collect();
        if want != got {
            ctx.violation("unk_rows_not_grouped_in_category_order", "C14:unk_rows_not_grouped_in_category_order", format!("expected (category, feature) sequence {:?}, emitted {:?}", want, got), cj(""));
            return;
        }
    }
    for (i, line) in ulines.iter().enumerate() {
        let (w, l, r) = view.labels[nsurf + i];
        let ok = match split4(line) {
            Some((f, rest)) => {
                let c: i64 = f[3].parse().unwrap_or(i64::MAX);
                emitted.push((w, c));
                f[0] == view.unk_entries[i].0 && f[1] == l.to_string() && f[2] == r.to_string() && cost_ok(w, c) && rest == view.unk_entries[i].1 && (l as usize) < nl && (r as usize) < nr
            }
            None => false,
        };
        if !ok {
            ctx.violation("unk_row_wrong", "C14:unk_row_wrong", format!("row {i}: {:?} but the model says category {:?}, left {l}, right {r}, weight {w} -> cost {:?}, feature {:?}", line, view.unk_entries[i].0, scaled(w, max), view.unk_entries[i].1), cj(""));
            return;
        }
    }
    // monotonicity, independent of the formula: higher weight never gets a higher cost
    for a in &emitted {
        for b in &emitted {
            if a.0 > b.0 && a.1 > b.1 {
                ctx.violation("cost_not_monotone_in_weight", "C14:cost_not_monotone_in_weight", format!("weight {} has cost {} but the lower weight {} has the lower cost {}", a.0, a.1, b.0, b.1), cj(""));
                return;
            }
        }
    }
    // user lexicon rows
    let uslines: Vec<&str> = user.lines().collect();
    if uslines.len() != view.user_entries.len() {
        ctx.violation("user_row_count", "C14:user_row_count", format!("{} rows for {} user entries", uslines.len(), view.user_entries.len()), cj(""));
        return;
    }
    for (i, line) in uslines.iter().enumerate() {
        let (surf, feat, l, r, c, label) = &view.user_entries[i];
        let (w, ml, mr) = view.labels[*label as usize - 1];
        let trained = *l == 0 && *r == 0 && *c == 0;
        let ok = match split4(line) {
            Some((f, rest)) => {
                let cc: i64 = f[3].parse().unwrap_or(i64::MAX);
                f[0] == *surf && rest == *feat && if trained { f[1] == ml.to_string() && f[2] == mr.to_string() && cost_ok(w, cc) } else { f[1] == l.to_string() && f[2] == r.to_string() && cc == *c as i64 }
            }
            None => false,
        };
        if !ok {
            ctx.violation("user_row_wrong", "C14:user_row_wrong", format!("row {i}: {:?}; entry ({surf:?},{l},{r},{c},{feat:?}) {}", line, if trained { format!("must receive trained parameters (left {ml}, right {mr}, cost {:?})", scaled(w, max)) } else { "must be copied unchanged".into() }), cj(""));
            return;
        }
        ctx.bucket(if trained { "user_row_with_trained_parameters" } else { "user_row_copied_unchanged" });
        // independent of the model view: a 0,0,0 user row whose feature text equals a seed row's (and whose
        // first character has the same category) expands to the same features, hence the same parameters
        if trained && !bundled {
            if let Some((fields, _)) = split4(line) {
                let ucat = surf.chars().next().map(|c| ts.cat_of(c));
                for (si, seed) in ts.seed.iter().enumerate() {
                    if feat_text(&seed.1) == *feat && seed.0.chars().next().map(|c| ts.cat_of(c)) == ucat {
                        if let Some((sf, _)) = llines.get(si).and_then(|l| split4(l)) {
                            // The class ids may differ (feature strings pruned by training are interned again under
                            // fresh, weightless ids), but the parameters must be equivalent: same word cost, and the
                            // same matrix column (left id) and row (right id).
                            let id = |x: &String| x.parse::<usize>().unwrap_or(usize::MAX);
                            let (ul, ur, sl, sr) = (id(&fields[1]), id(&fields[2]), id(&sf[1]), id(&sf[2]));
                            let mut dense: HashMap<(usize, usize), i64> = HashMap::new();
                            for g in &got_cells {
                                if g.len() == 3 {
                                    dense.insert((g[0] as usize, g[1] as usize), g[2]);
                                }
                            }
                            let cell = |r: usize, l: usize| *dense.get(&(r, l)).unwrap_or(&0);
                            let same_col = (0..nr).all(|r| cell(r, ul) == cell(r, sl));
                            let same_row = (0..nl).all(|l| cell(ur, l) == cell(sr, l));
                            if sf[3] != fields[3] || !same_col || !same_row {
                                ctx.violation("user_row_differs_from_identical_seed_row", "C14:user_row_differs_from_identical_seed_row", format!("user row {i} {:?} has the feature text and first-character category of seed row {si} {:?}, but its parameters are not equivalent: cost {} vs {}, matrix column of left id {ul} {} that of {sl}, matrix row of right id {ur} {} that of {sr}", line, llines[si], fields[3], sf[3], if same_col { "equals" } else { "differs from" }, if same_row { "equals" } else { "differs from" }), cj(""));
                                return;
                            }
                            ctx.bucket("user_row_equals_identical_seed_row");
                        }
                        break;
                    }
                }
            }
        }
    }
    // the emitted files compile, and the compiled dictionary tokenizes the training sentences
    let char_def = if bundled { std::fs::read_to_string("/repo/vibrato/src/tests/resources/char.def").unwrap_or_default() } else { ts.char_def() };
    match guarded(|| SystemDictionaryBuilder::from_readers(files.lex.as_slice(), files.matrix.as_slice(), char_def.as_bytes(), files.unk.as_slice()).map_err(|e| e.to_string())) {
        Ok(Ok(d)) => {
            let d = if with_user {
                match load_user_text(d, &files.user) {
                    Ok(d) => d,
                    Err(e) => {
                        ctx.violation("emitted_user_lexicon_rejected", "C14:emitted_user_lexicon_rejected", e, cj(""));
                        return;
                    }
                }
            } else {
                d
            };
            let tok = vibrato::Tokenizer::new(d);
            let mut w = tok.new_worker();
            for sent in &ts.corpus {
                let s: String = sent.iter().map(|t| t.0.as_str()).collect();
                match tokenize(&mut w, &s) {
                    Ok(t) => {
                        let cat: String = t.iter().map(|x| x.surface.as_str()).collect();
                        if cat != s {
                            ctx.violation("compiled_dictionary_does_not_cover_training_sentence", "C14:compiled_partition", format!("{s:?} -> {:?}", toks_brief(&t)), cj(""));
                            return;
                        }
                    }
                    Err(p) => {
                        // a category without unknown entry is the known finding of C01/C10, not C14's business
                        ctx.note(format!("tokenize on compiled dictionary panicked: {p}"));
                        w = tok.new_worker();
                    }
                }
            }
            ctx.bucket("emitted_files_compile");
        }
        Ok(Err(e)) => {
            ctx.violation("emitted_files_do_not_compile", "C14:emitted_files_do_not_compile", e, cj(""));
            return;
        }
        Err(p) => {
            ctx.violation("compiling_emitted_files_panicked", "C14:compiling_emitted_files_panicked", p, cj(""));
            return;
        }
    }
    if max == 0.0 {
        ctx.bucket("all_zero_weight_model");
    } else {
        ctx.bucket("non_zero_weights");
        if emitted.iter().any(|e| e.1 < 0) && emitted.iter().any(|e| e.1 > 0) {
            ctx.bucket("costs_of_both_signs");
        }
    }
    if nr != nl {
        ctx.bucket("non_square_matrix");
    }
    ctx.total("rows_checked", (llines.len() + ulines.len() + uslines.len() + want_cells.len()) as u64);
    ctx.distinct(hash_bytes(format!("{}{}{}", lex, unk, matrix).as_bytes()));
    if ctx.want_sample() && max > 0.0 {
        ctx.sample(json!({"lex.csv_head": lex.lines().take(4).collect::<Vec<_>>(), "unk.def_head": unk.lines().take(2).collect::<Vec<_>>(), "matrix_header": header, "max_abs_weight": max, "labels_head": view.labels.iter().take(4).collect::<Vec<_>>()}));
    }
}

fn load_user_text(d: vibrato::Dictionary, csv: &[u8]) -> Result<vibrato::Dictionary, String> {
    match guarded(move || d.reset_user_lexicon_from_reader(Some(csv)).map_err(|e| e.to_string())) {
        Ok(r) => r,
        Err(p) => Err(format!("panic: {p}")),
    }
}

const RES: &str = "/repo/vibrato/src/tests/resources";

pub fn train_bundled() -> Option<Model> {
    let rd = |n: &str| std::fs::read(format!("{RES}/{n}")).ok();
    let (lex, ch, unk, fd, rw, co) = (rd("train_lex.csv")?, rd("char.def")?, rd("train_unk.def")?, rd("feature.def")?, rd("rewrite.def")?, rd("corpus.txt")?);
    guarded(|| {
        let config = TrainerConfig::from_readers(lex.as_slice(), ch.as_slice(), unk.as_slice(), fd.as_slice(), rw.as_slice()).ok()?;
        let corpus = Corpus::from_reader(co.as_slice()).ok()?;
        Trainer::new(config).ok()?.max_iter(20).train(corpus).ok()
    })
    .ok()
    .flatten()
}

// ---------------------------------------------------------------- C15

pub fn c15_case(ctx: &mut Ctx, rng: &mut Rng) {
    let bundled = ctx.index == 0;
    let mut ts = gen_trainset(rng);
    if !bundled && rng.chance(0.12) {
        // neighbouring seed rows whose feature strings share their first 256+ bytes
        let long = "共".repeat(90 + rng.below(30));
        let head = ts.seed[0].1[0].clone();
        ts.seed.push(("あい".to_string(), vec![head.clone(), long.clone(), "a".to_string()]));
        ts.seed.push(("あう".to_string(), vec![head, long, "b".to_string()]));
        ctx.bucket("neighbouring_rows_sharing_a_long_feature_prefix");
    }
    if !bundled && rng.chance(0.15) {
        // a seed surface with a line break inside (a quoted CSV cell); the corpus format cannot name it
        let cells = ts.seed[0].1.clone();
        ts.seed.push((["あ\nい", "a\n", "\nb", "a\r\nb"][rng.below(4)].to_string(), cells));
        ctx.bucket("seed_surface_with_line_break");
    }
    let desc = if bundled { json!({"training_set": "bundled resources"}) } else { ts.texts() };
    let mk = || if bundled { train_bundled().ok_or_else(|| "bundled".to_string()) } else { train(&ts) };
    let mut m = match mk() {
        Ok(m) => m,
        Err(_) => {
            ctx.bucket("training_failed");
            return;
        }
    };
    if vibrato::verif::model_bigram_rows(&m) == 0 {
        ctx.bucket("model_with_empty_bigram_table_skipped");
        return;
    }
    ctx.bucket("training_succeeded");
    let user_csv = if bundled { std::fs::read_to_string(format!("{RES}/user.csv")).unwrap_or_default() } else { ts.user_csv() };
    let cmp = |ctx: &mut Ctx, what: &str, a: &Files, b: &Files, with_user: bool| -> bool {
        let pairs: [(&str, &Vec<u8>, &Vec<u8>); 6] = [("lex.csv", &a.lex, &b.lex), ("matrix.def", &a.matrix, &b.matrix), ("unk.def", &a.unk, &b.unk), ("user.csv", &a.user, &b.user), ("bigram.left", &a.bleft, &b.bleft), ("bigram.right", &a.bright, &b.bright)];
        for (name, x, y) in pairs {
            if name == "user.csv" && !with_user {
                continue;
            }
            if x != y {
                let (sx, sy) = (String::from_utf8_lossy(x).to_string(), String::from_utf8_lossy(y).to_string());
                let at = sx.lines().zip(sy.lines()).position(|(p, q)| p != q).unwrap_or(0);
                ctx.violation("generated_files_differ", &format!("C15:{what}"), format!("{what}: {name} differs at line {at}: {:?} vs {:?} (lengths {} vs {})", sx.lines().nth(at), sy.lines().nth(at), x.len(), y.len()), json!({"training": desc, "user.csv": user_csv}));
                return false;
            }
        }
        if sorted_lines(&a.bcost) != sorted_lines(&b.bcost) {
            ctx.violation("generated_files_differ", &format!("C15:{what}"), format!("{what}: bigram.cost differs as a multiset of lines ({} vs {} lines)", sorted_lines(&a.bcost).len(), sorted_lines(&b.bcost).len()), json!({"training": desc, "user.csv": user_csv}));
            return false;
        }
        true
    };
    let fail = |ctx: &mut Ctx, what: &str, e: String| ctx.violation("operation_failed", &format!("C15:{what}:failed"), e, json!({"training": desc, "user.csv": user_csv}));
    // sequence chosen by the seed
    let gen_before_write = rng.chance(0.5);
    let user_timing = rng.below(3); // 0: none, 1: after read (both sides), 2: in memory first generated without, then added
    let mut f0 = None;
    if gen_before_write {
        match generate(&mut m) {
            Ok(f) => {
                // generating twice gives the same result
                match generate(&mut m) {
                    Ok(g) => {
                        ctx.eval();
                        if !cmp(ctx, "generate_twice", &f, &g, true) {
                            return;
                        }
                        ctx.bucket("generated_twice");
                    }
                    Err(e) => return fail(ctx, "generate_twice", e),
                }
                f0 = Some(f);
            }
            Err(e) => return fail(ctx, "generate", e),
        }
    }
    // write_model: the reported count is the number of bytes
    let mut bytes = vec![];
    match guarded(|| m.write_model(&mut bytes).map_err(|e| e.to_string())) {
        Ok(Ok(n)) => {
            if n != bytes.len() {
                ctx.violation("write_model_reports_wrong_count", "C15:write_model_count", format!("reported {n}, wrote {}", bytes.len()), desc.clone());
                return;
            }
        }
        Ok(Err(e)) | Err(e) => return fail(ctx, "write_model", e),
    }
    let chunked = rng.chance(0.5);
    // the model followed by the user lexicon in one stream, read through `&mut` one after the other
    let mut shared = if !chunked && user_timing != 0 && !user_csv.is_empty() && rng.chance(0.5) {
        let mut v = bytes.clone();
        v.extend_from_slice(user_csv.as_bytes());
        Some(std::io::Cursor::new(v))
    } else {
        None
    };
    let mut m2 = match guarded(|| {
        if let Some(cur) = shared.as_mut() {
            Model::read_model(cur).map_err(|e| e.to_string())
        } else if chunked {
            // the stored model arrives in small pieces (pipe, decompression stream)
            let rdr = crate::dictprops::ChunkReader { data: unsafe { std::mem::transmute::<&[u8], &'static [u8]>(bytes.as_slice()) }, pos: 0, rng: Rng(bytes.len() as u64 | 1), mode: 2, fail_at: None };
            Model::read_model(rdr).map_err(|e| e.to_string())
        } else {
            Model::read_model(bytes.as_slice()).map_err(|e| e.to_string())
        }
    }) {
        Ok(Ok(m)) => m,
        Ok(Err(e)) | Err(e) => return fail(ctx, if chunked { "read_model_through_chunked_reader" } else { "read_model" }, e),
    };
    if chunked {
        ctx.bucket("model_read_through_chunked_reader");
    }
    ctx.eval();
    let with_user = user_timing != 0 && !user_csv.is_empty();
    if with_user {
        for (name, mm) in [("memory", &mut m), ("reloaded", &mut m2)] {
            let r = match shared.as_mut() {
                Some(cur) if name == "reloaded" => {
                    // (the user lexicon is what follows the model in the stream; the verdict is the comparison of
                    // the generated files below)
                    ctx.bucket("model_and_user_lexicon_from_one_stream");
                    guarded(|| mm.read_user_lexicon(cur).map_err(|e| e.to_string()))
                }
                _ => guarded(|| mm.read_user_lexicon(user_csv.as_bytes()).map_err(|e| e.to_string())),
            };
            match r {
                Ok(Ok(())) => {}
                Ok(Err(e)) | Err(e) => return fail(ctx, &format!("read_user_lexicon_{name}"), e),
            }
        }
        ctx.bucket(if gen_before_write { "user_lexicon_added_after_a_generation" } else { "user_lexicon_added_before_first_generation" });
    }
    let fa = match generate(&mut m) {
        Ok(f) => f,
        Err(e) => return fail(ctx, "generate_in_memory", e),
    };
    if with_user {
        // generating again (now with the user lexicon registered) gives the same files, user.csv included
        match generate(&mut m) {
            Ok(g) => {
                ctx.eval();
                if !cmp(ctx, "generate_twice_with_user_lexicon", &fa, &g, true) {
                    return;
                }
                ctx.bucket("generated_twice_with_user_lexicon");
            }
            Err(e) => return fail(ctx, "generate_twice_with_user_lexicon", e),
        }
    }
    let fb = match generate(&mut m2) {
        Ok(f) => f,
        Err(e) => return fail(ctx, "generate_reloaded", e),
    };
    ctx.eval();
    if !cmp(ctx, "in_memory_vs_reloaded", &fa, &fb, true) {
        return;
    }
    ctx.bucket("in_memory_vs_reloaded_compared");
    if let (Some(f0), false) = (&f0, with_user) {
        if !cmp(ctx, "generate_before_vs_after_write", f0, &fa, true) {
            return;
        }
    }
    if let (Some(f0), true) = (&f0, with_user) {
        // adding a user lexicon must not change the system files when it introduces no new class... not
        // specified in general; only the reloaded comparison above is a verdict. Recorded as evidence.
        if f0.lex == fa.lex {
            ctx.bucket("system_files_unchanged_by_user_lexicon");
        }
    }
    // a second round trip of the reloaded model
    let mut bytes2 = vec![];
    if let Ok(Ok(_)) = guarded(|| m2.write_model(&mut bytes2).map_err(|e| e.to_string())) {
        if let Ok(Ok(mut m3)) = guarded(|| Model::read_model(bytes2.as_slice()).map_err(|e| e.to_string())) {
            if with_user {
                let _ = guarded(|| m3.read_user_lexicon(user_csv.as_bytes()).map_err(|e| e.to_string()));
            }
            if let Ok(fc) = generate(&mut m3) {
                ctx.eval();
                // user entries are not stored in the model; system files and bigram files must agree
                if !cmp(ctx, "second_round_trip", &fb, &fc, false) {
                    return;
                }
                ctx.bucket("second_round_trip_compared");
            }
        }
    }
    ctx.total("model_bytes", bytes.len() as u64);
    ctx.distinct(hash_bytes(&fa.lex) ^ hash_bytes(&fa.matrix) ^ hash_bytes(&fa.bleft));
    if ctx.want_sample() {
        ctx.sample(json!({"sequence": format!("train; {}write_model; read_model; {}generate both", if gen_before_write {"generate x2; "} else {""}, if with_user {"read_user_lexicon on both; "} else {""}), "model_bytes": bytes.len(), "lex_rows": sorted_lines(&fa.lex).len(), "bigram.cost_lines": sorted_lines(&fa.bcost).len()}));
    }
}

// ---------------------------------------------------------------- C16

/// Gives the seed word that opens the corpus a ~2 KB feature value (below the 4096-byte limit of the lexicon
/// reader) and adds a bigram template that joins it with itself, so that bigram.left / bigram.right carry a
/// feature string of more than 4096 bytes that training has seen.
fn force_long_bigram_feature(ts: &mut TrainSet, rng: &mut Rng) -> bool {
    let first = match ts.corpus.first().and_then(|s| s.first()) {
        Some(t) => t.clone(),
        None => return false,
    };
    if !ts.seed.iter().any(|r| *r == first) || first.1.len() < 2 {
        return false;
    }
    let mut new = first.clone();
    new.1[1] = "長".repeat(690 + rng.below(20));
    for r in ts.seed.iter_mut().filter(|r| **r == first) {
        *r = new.clone();
    }
    for t in ts.corpus.iter_mut().flatten().filter(|t| **t == first) {
        *t = new.clone();
    }
    for u in ts.user.iter_mut().filter(|u| u.4 == first.1) {
        u.4 = new.1.clone();
    }
    ts.bigram_t.push(("BX:%L[1],%L[1]".to_string(), "BX:%R[1],%R[1]".to_string()));
    true
}

pub fn c16_case(ctx: &mut Ctx, rng: &mut Rng) {
    let bundled = ctx.index == 0;
    let mut ts = gen_trainset(rng);
    if !bundled && rng.chance(0.06) && force_long_bigram_feature(&mut ts, rng) {
        ctx.bucket("bigram_feature_string_longer_than_4096_bytes");
    }
    let desc = if bundled { json!({"training_set": "bundled resources"}) } else { ts.texts() };
    let mut m = match if bundled { train_bundled().ok_or_else(|| "bundled".to_string()) } else { train(&ts) } {
        Ok(m) => m,
        Err(_) => {
            ctx.bucket("training_failed");
            return;
        }
    };
    if vibrato::verif::model_bigram_rows(&m) == 0 {
        ctx.bucket("model_with_empty_bigram_table_skipped");
        return;
    }
    ctx.bucket("training_succeeded");
    let k = if bundled { std::fs::read_to_string(format!("{RES}/feature.def")).unwrap_or_default().lines().filter(|l| l.trim().starts_with("BIGRAM ")).count() } else { ts.bigram_t.len() };
    let bare = !bundled && ts.bigram_t.iter().any(|(l, r)| bare_template_side(l) || bare_template_side(r));
    if bare {
        ctx.bucket("template_side_without_literal_text");
    }
    let f = match generate(&mut m) {
        Ok(f) => f,
        Err(e) => {
            ctx.violation("generation_failed", "C16:generation_failed", e, desc);
            return;
        }
    };
    let char_def = if bundled { std::fs::read_to_string(format!("{RES}/char.def")).unwrap_or_default() } else { ts.char_def() };
    let cj = |d: String| json!({"training": desc, "matrix.def": String::from_utf8_lossy(&f.matrix).chars().take(1500).collect::<String>(), "bigram.left": String::from_utf8_lossy(&f.bleft), "bigram.right": String::from_utf8_lossy(&f.bright), "bigram.cost": String::from_utf8_lossy(&f.bcost).chars().take(3000).collect::<String>(), "detail": d});
    let a = match build_from_texts(&f.lex, char_def.as_bytes(), &f.unk, &ConnTexts::Matrix(f.matrix.clone())) {
        BuildOutcome::Ok(d) => d,
        _ => {
            ctx.bucket("matrix_dictionary_not_built");
            return;
        }
    };
    let (nr, nl) = vibrato::verif::conn_dims(&a);
    for dual in [false, true] {
        let name = if dual { "dual" } else { "raw" };
        ctx.eval();
        let b = match build_from_texts(&f.lex, char_def.as_bytes(), &f.unk, &ConnTexts::Bigram { right: f.bright.clone(), left: f.bleft.clone(), cost: f.bcost.clone(), dual }) {
            BuildOutcome::Ok(d) => d,
            BuildOutcome::Err(e) => {
                ctx.violation("bigram_files_do_not_compile", &format!("C16:{name}:bigram_files_do_not_compile"), e, cj(String::new()));
                return;
            }
            BuildOutcome::Panic(p) => {
                ctx.violation("bigram_files_compile_panicked", &format!("C16:{name}:compile_panicked"), p, cj(String::new()));
                return;
            }
        };
        // a compiled dictionary is used after write/read (portable or AVX2 encode/decode of the feature rows)
        let b = match write_dict(&b).ok().and_then(|(bytes, _)| read_dict(&bytes).ok()).and_then(|r| r.ok()) {
            Some(b2) => b2,
            None => {
                ctx.violation("bigram_dictionary_does_not_round_trip", &format!("C16:{name}:round_trip"), "write/read of the compiled bigram dictionary failed".into(), cj(String::new()));
                return;
            }
        };
        if vibrato::verif::conn_dims(&b) != (nr, nl) {
            ctx.violation("bigram_dimensions_differ_from_matrix", &format!("C16:{name}:dimensions"), format!("matrix.def describes {nr}x{nl} ids, the bigram files {:?}", vibrato::verif::conn_dims(&b)), cj(String::new()));
            return;
        }
        let mut worst = 0i64;
        let mut clamp_seen = false;
        for r in 0..nr {
            for l in 0..nl {
                let ca = vibrato::verif::conn_cost(&a, r as u16, l as u16) as i64;
                let cb = match guarded(|| vibrato::verif::conn_cost(&b, r as u16, l as u16)) {
                    Ok(c) => c as i64,
                    Err(p) => {
                        ctx.violation("bigram_cost_lookup_panicked", &format!("C16:{name}:lookup_panicked"), p, cj(String::new()));
                        return;
                    }
                };
                worst = worst.max((ca - cb).abs());
                if (ca - cb).abs() > k as i64 + 1 {
                    let detail = format!("{name}: cost(right {r}, left {l}) = {cb} from the bigram files, {ca} in matrix.def; {k} bigram templates allow a difference of {}", k + 1);
                    if dual && dual_presum_may_exceed_i16(&f, r, l) {
                        // the dual connector clamps its pre-summed matrix part to 16 bits (listed known finding)
                        ctx.violation("bigram_cost_differs_from_matrix_beyond_rounding", KNOWN_DUAL_CLAMP, detail + "; some choice of (templates - 8) per-template costs of this pair sums beyond 16 bits", cj(String::new()));
                        ctx.bucket("dual_clamp_case_seen");
                        clamp_seen = true;
                        continue;
                    }
                    if bare {
                        // (listed known finding: a bare feature value as a bigram feature string)
                        ctx.violation("bigram_cost_differs_from_matrix_beyond_rounding", KNOWN_STAR_FEATURE, detail + "; feature.def has a BIGRAM template side without literal text", cj(String::new()));
                        ctx.bucket("star_feature_case_seen");
                        return;
                    }
                    ctx.violation("bigram_cost_differs_from_matrix_beyond_rounding", &format!("C16:{name}:beyond_rounding"), detail, cj(String::new()));
                    return;
                }
                if r == 0 || l == 0 {
                    ctx.bucket("pair_with_id_0_compared");
                }
                if ca != 0 {
                    ctx.bucket("non_zero_cell_compared");
                }
            }
        }
        // "can stand in for the matrix-based one": also after the same id mapping has been applied to both
        if !clamp_seen && !bare && nr > 1 && nl > 1 && rng.chance(0.35) {
            let (pl, pr) = (crate::gen::gen_perm_ids(rng, nl), crate::gen::gen_perm_ids(rng, nr));
            let (li, ri) = (crate::model::perm_to_iter(&pl), crate::model::perm_to_iter(&pr));
            let a2 = write_dict(&a).ok().and_then(|(bytes, _)| read_dict(&bytes).ok()).and_then(|r| r.ok());
            let (li2, ri2) = (li.clone(), ri.clone());
            let a2 = a2.and_then(|d| guarded(move || d.map_connection_ids_from_iter(li2, ri2).ok()).ok().flatten());
            let b2 = guarded(move || b.map_connection_ids_from_iter(li, ri).map_err(|e| e.to_string()));
            match (a2, b2) {
                (Some(a2), Ok(Ok(b2))) => {
                    for r in 0..nr {
                        for l in 0..nl {
                            let ca = vibrato::verif::conn_cost(&a2, r as u16, l as u16) as i64;
                            let cb = guarded(|| vibrato::verif::conn_cost(&b2, r as u16, l as u16)).map(|c| c as i64).unwrap_or(i64::MIN);
                            if (ca - cb).abs() > k as i64 + 1 {
                                ctx.violation("bigram_cost_differs_from_matrix_beyond_rounding", &format!("C16:{name}:beyond_rounding_after_id_mapping"), format!("{name}, after the id mapping lmap {:?} rmap {:?} was applied to both dictionaries: cost(right {r}, left {l}) = {cb} from the bigram files, {ca} in matrix.def", crate::model::perm_to_iter(&pl), crate::model::perm_to_iter(&pr)), cj(String::new()));
                                return;
                            }
                        }
                    }
                    ctx.bucket("compared_again_after_id_mapping");
                }
                (Some(_), other) => {
                    ctx.violation("valid_mapping_rejected_by_bigram_dictionary", &format!("C16:{name}:mapping_rejected"), format!("the matrix dictionary accepts the mapping, the bigram dictionary: {:?}", other.map(|r| r.map(|_| "ok"))), cj(String::new()));
                    return;
                }
                _ => {}
            }
        }
        ctx.total("id_pairs_compared", (nr * nl) as u64);
        ctx.total("largest_rounding_difference_seen", 0);
        let e = ctx.totals.entry("largest_rounding_difference_seen".into()).or_insert(0);
        *e = (*e).max(worst as u64);
        ctx.bucket(&format!("{name}_compared"));
    }
    ctx.bucket(if k < 8 { "fewer_than_8_templates" } else { "8_or_more_templates" });
    ctx.distinct(hash_bytes(&f.matrix) ^ hash_bytes(&f.bcost));
    if ctx.want_sample() {
        ctx.sample(json!({"bigram_templates": k, "right_ids": nr, "left_ids": nl, "bigram.cost_lines": sorted_lines(&f.bcost).len(), "matrix_lines": sorted_lines(&f.matrix).len()}));
    }
}

pub const KNOWN_DUAL_CLAMP: &str = "C16:dual:beyond_rounding:pre-summed-part-may-exceed-16-bits";
pub const KNOWN_STAR_FEATURE: &str = "C16:bigram-files:template-side-without-literal-text";

/// A BIGRAM template side that consists of one feature reference and nothing else (`%L[1]`, `%R?[0]`): its expansion is
/// the bare feature value, which may be `*` (the marker of an absent feature in bigram.left/right) or the empty text
/// (the feature of BOS/EOS).
pub fn bare_template_side(t: &str) -> bool {
    let b = t.as_bytes();
    t.len() >= 5 && b[0] == b'%' && (b[1] == b'L' || b[1] == b'R') && t.ends_with(']') && {
        let rest = &t[2..t.len() - 1];
        let rest = rest.strip_prefix('?').unwrap_or(rest);
        rest.starts_with('[') && rest.len() > 1 && rest[1..].bytes().all(|c| c.is_ascii_digit())
    }
}

/// Does the emitted bigram.cost list a feature string that is exactly `*` (on either side of a key)? In
/// bigram.left / bigram.right `*` marks an absent feature, so such a string (the expansion of a template side without
/// literal text, e.g. `%L[1]`, over a feature value `*`) cannot be told from "no feature" when the files are read.
pub fn star_feature_in_cost_file(f: &Files) -> bool {
    String::from_utf8_lossy(&f.bcost).lines().any(|l| {
        let key = l.rsplit_once('\t').map_or(l, |x| x.0);
        match key.split_once('/') {
            Some((a, b)) => a == "*" || b == "*",
            None => false,
        }
    })
}

/// Per-template contributions of the pair (r, l) read from the emitted bigram files by an
/// independent parser: could the (templates - 8) costs that the dual connector pre-sums into its
/// 16-bit matrix exceed 16 bits for SOME choice of templates?
pub fn dual_presum_may_exceed_i16(f: &Files, r: usize, l: usize) -> bool {
    let (bl, br, bc) = (String::from_utf8_lossy(&f.bleft).to_string(), String::from_utf8_lossy(&f.bright).to_string(), String::from_utf8_lossy(&f.bcost).to_string());
    let (left_rows, right_rows) = match (parse_bigram_side(&bl), parse_bigram_side(&br)) {
        (Some(a), Some(b)) => (a, b),
        _ => return false,
    };
    let mut cost: HashMap<(String, String), i64> = HashMap::new();
    for line in bc.lines() {
        if let Some((feat, c)) = line.split_once('\t') {
            if let (Some((a, b)), Ok(c)) = (feat.split_once('/'), c.parse::<i64>()) {
                cost.insert((a.to_string(), b.to_string()), c);
            }
        }
    }
    let k = left_rows.iter().chain(right_rows.iter()).map(|x| x.len()).max().unwrap_or(0);
    if k <= 8 {
        return false;
    }
    let mut contrib: Vec<i64> = vec![];
    for p in 0..k {
        let rf = if r == 0 { Some("") } else { right_rows.get(r - 1).and_then(|x| x.get(p)).map(|s| s.as_str()) };
        let lf = if l == 0 { Some("") } else { left_rows.get(l - 1).and_then(|x| x.get(p)).map(|s| s.as_str()) };
        if let (Some(a), Some(b)) = (rf, lf) {
            if a != "*" && b != "*" {
                contrib.push(*cost.get(&(a.to_string(), b.to_string())).unwrap_or(&0));
                continue;
            }
        }
        contrib.push(0);
    }
    let m = k - 8;
    let mut pos: Vec<i64> = contrib.iter().cloned().filter(|&c| c > 0).collect();
    let mut neg: Vec<i64> = contrib.iter().cloned().filter(|&c| c < 0).collect();
    pos.sort_by(|a, b| b.cmp(a));
    neg.sort();
    pos.iter().take(m).sum::<i64>() > i16::MAX as i64 || neg.iter().take(m).sum::<i64>() < i16::MIN as i64
}

/// Known-finding witnesses of the trainer family.
pub fn c14_witness_no_bigram_feature(ctx: &mut Ctx) {
    let s = |x: &str| x.to_string();
    let ts = TrainSet {
        cats: vec![(s("DEFAULT"), false, true, 0)],
        // no word has a left-word (%L) feature; only `b`, which never starts a sentence, has a right-word one
        seed: vec![(s("a"), vec![s("名詞"), s("*")]), (s("b"), vec![s("動詞"), s("x")])],
        unk: vec![(0, vec![s("記号"), s("*")])],
        unigram_t: vec![s("U:%F[0]")],
        bigram_t: vec![(s("B:%L?[2]"), s("B:%R?[1]"))],
        rules: [vec![], vec![], vec![]],
        corpus: vec![vec![(s("a"), vec![s("名詞"), s("*")]), (s("b"), vec![s("動詞"), s("x")])]],
        // the user word brings a right-word feature into a model whose bigram table is empty
        user: vec![(s("c"), 0, 0, 0, vec![s("動詞"), s("x")])],
        max_iter: 5,
        lambda: 0.01,
        zero_cat: 0,
    };
    ctx.eval();
    if let Ok(mut m) = train(&ts) {
        let _ = guarded(|| m.read_user_lexicon(ts.user_csv().as_bytes()).map_err(|e| e.to_string()));
        match generate(&mut m) {
            Err(e) if e.contains("rucrf") && e.contains("the len is 0") && vibrato::verif::model_bigram_rows(&m) == 0 => ctx.violation("generation_failed", KNOWN_NO_BIGRAM, format!("{e}; the trained model's bigram weight table has no row at all (not even the BOS row), and a label with a right-word feature was added afterwards"), ts.texts()),
            Err(e) => ctx.violation("generation_failed", "C14:generation_failed", e, ts.texts()),
            Ok(_) => ctx.bucket("witness_no_bigram_feature_ok"),
        }
    }
}

pub fn c16_witness_dual_clamp(ctx: &mut Ctx) {
    // hand-made "emitted" files: 10 templates, per-template costs of +-20000 that cancel out, so that
    // matrix.def holds 0 for every pair while any two equal-signed templates pre-sum beyond 16 bits
    let k = 10;
    let n = 12;
    let mut left = String::new();
    let mut right = String::new();
    let mut cost = String::new();
    for id in 1..=n {
        // id's sign pattern: template p is positive iff bit p of a per-id mask is set (five of ten)
        let cells = |side: &str| -> String { (0..k).map(|p| format!("{side}{p}_{}", if (crate::rng::mix((id * 131 + p * 7919 + side.len()) as u64 + if side == "r" { 0 } else { 977 }) >> 7) & 1 == 0 { "P" } else { "N" })).collect::<Vec<_>>().join(",") };
        right += &format!("{id}\t{}\n", cells("r"));
        left += &format!("{id}\t{}\n", cells("l"));
    }
    for p in 0..k {
        for (a, b, c) in [("P", "P", 20000), ("N", "N", 20000), ("P", "N", -20000), ("N", "P", -20000)] {
            cost += &format!("r{p}_{a}/l{p}_{b}\t{c}\n");
        }
    }
    let lex = "a,1,1,0,A\n";
    let conn_raw = ConnTexts::Bigram { right: right.clone().into_bytes(), left: left.clone().into_bytes(), cost: cost.clone().into_bytes(), dual: false };
    let conn_dual = ConnTexts::Bigram { right: right.clone().into_bytes(), left: left.clone().into_bytes(), cost: cost.clone().into_bytes(), dual: true };
    let (raw, dual) = match (build_from_texts(lex.as_bytes(), b"DEFAULT 0 1 0\n", b"DEFAULT,0,0,0,U\n", &conn_raw), build_from_texts(lex.as_bytes(), b"DEFAULT 0 1 0\n", b"DEFAULT,0,0,0,U\n", &conn_dual)) {
        (BuildOutcome::Ok(a), BuildOutcome::Ok(b)) => (a, b),
        _ => {
            ctx.note("C16 witness: dictionaries not built".into());
            return;
        }
    };
    ctx.eval();
    let f = Files { bleft: left.into_bytes(), bright: right.into_bytes(), bcost: cost.into_bytes(), ..Default::default() };
    for r in 1..=n {
        for l in 1..=n {
            let a = vibrato::verif::conn_cost(&raw, r as u16, l as u16) as i64;
            let b = vibrato::verif::conn_cost(&dual, r as u16, l as u16) as i64;
            if (a - b).abs() > k as i64 + 1 && a.abs() <= i16::MAX as i64 {
                if dual_presum_may_exceed_i16(&f, r, l) {
                    ctx.violation("bigram_cost_differs_from_matrix_beyond_rounding", KNOWN_DUAL_CLAMP, format!("dual: cost(right {r}, left {l}) = {b}, the sum of the listed per-template costs (what matrix.def holds) is {a}; ten templates of +-20000"), json!({"witness": "c16_witness_dual_clamp"}));
                } else {
                    ctx.violation("bigram_cost_differs_from_matrix_beyond_rounding", "C16:dual:beyond_rounding", format!("witness pair ({r},{l}): {b} vs {a}"), json!({"witness": "c16_witness_dual_clamp"}));
                }
                return;
            }
        }
    }
    ctx.bucket("witness_dual_clamp_not_reproduced");
}

/// Known finding: a template side without literal text over a feature value `*`.
pub fn c16_witness_star_feature(ctx: &mut Ctx) {
    let s = |x: &str| x.to_string();
    let ts = TrainSet {
        cats: vec![(s("DEFAULT"), false, true, 0)],
        seed: vec![(s("a"), vec![s("名詞"), s("*")]), (s("b"), vec![s("動詞"), s("x")]), (s("c"), vec![s("助詞"), s("y")])],
        unk: vec![(0, vec![s("記号"), s("z")])],
        unigram_t: vec![s("U:%F[0]")],
        // the left-word side of the second template has no literal text: for `a` it expands to `*`
        bigram_t: vec![(s("B:%L[0]"), s("B:%R[0]")), (s("%L[1]"), s("C:%R[0]"))],
        rules: [vec![], vec![], vec![]],
        corpus: vec![
            vec![(s("a"), vec![s("名詞"), s("*")]), (s("b"), vec![s("動詞"), s("x")])],
            vec![(s("a"), vec![s("名詞"), s("*")]), (s("c"), vec![s("助詞"), s("y")])],
            vec![(s("b"), vec![s("動詞"), s("x")]), (s("a"), vec![s("名詞"), s("*")]), (s("a"), vec![s("名詞"), s("*")])],
            vec![(s("c"), vec![s("助詞"), s("y")]), (s("b"), vec![s("動詞"), s("x")])],
        ],
        user: vec![],
        max_iter: 30,
        lambda: 0.001,
        zero_cat: 0,
    };
    ctx.eval();
    let mut m = match train(&ts) {
        Ok(m) => m,
        Err(_) => return,
    };
    let f = match generate(&mut m) {
        Ok(f) => f,
        Err(_) => return,
    };
    if !star_feature_in_cost_file(&f) {
        ctx.bucket("witness_star_feature_not_reproduced");
        return;
    }
    let cd = ts.char_def();
    let a = build_from_texts(&f.lex, cd.as_bytes(), &f.unk, &ConnTexts::Matrix(f.matrix.clone()));
    let b = build_from_texts(&f.lex, cd.as_bytes(), &f.unk, &ConnTexts::Bigram { right: f.bright.clone(), left: f.bleft.clone(), cost: f.bcost.clone(), dual: false });
    if let (BuildOutcome::Ok(a), BuildOutcome::Ok(b)) = (a, b) {
        let (nr, nl) = vibrato::verif::conn_dims(&a);
        for r in 0..nr {
            for l in 0..nl {
                let (ca, cb) = (vibrato::verif::conn_cost(&a, r as u16, l as u16) as i64, vibrato::verif::conn_cost(&b, r as u16, l as u16) as i64);
                if (ca - cb).abs() > 3 {
                    ctx.violation("bigram_cost_differs_from_matrix_beyond_rounding", KNOWN_STAR_FEATURE, format!("raw: cost(right {r}, left {l}) = {cb} from the bigram files, {ca} in matrix.def; 2 bigram templates allow a difference of 3; feature.def has a BIGRAM template side without literal text (`%L[1]`), bigram.cost lists the feature string `*`"), json!({"witness": "c16_witness_star_feature", "training": ts.texts(), "bigram.left": String::from_utf8_lossy(&f.bleft), "bigram.right": String::from_utf8_lossy(&f.bright), "bigram.cost": String::from_utf8_lossy(&f.bcost)}));
                    return;
                }
            }
        }
    }
    ctx.bucket("witness_star_feature_not_reproduced");
}

// ---------------------------------------------------------------- C17

fn rules_text(sections: &[(&str, &Vec<Rule>)]) -> String {
    let mut s = String::new();
    for (name, rules) in sections {
        s += &format!("[{name} rewrite]\n");
        for (p, o) in rules.iter() {
            s += &format!("{} {}\n", p.join(","), o.join(","));
        }
    }
    s
}

fn c17_check(ctx: &mut Ctx, text: &str, section: &str, rules: &[Rule], lists: &[Vec<String>]) -> bool {
    let got = match guarded(|| vibrato::verif::rewrite_many(text, section, lists).map_err(|e| e.to_string())) {
        Ok(Ok(g)) => g,
        Ok(Err(e)) => {
            ctx.violation("valid_rewrite_def_rejected", "C17:valid_rewrite_def_rejected", e, json!({"rewrite.def": text}));
            return false;
        }
        Err(p) => {
            ctx.violation("rewrite_panicked", &format!("C17:{}", panic_class(&p)), p, json!({"rewrite.def": text}));
            return false;
        }
    };
    ctx.evals(lists.len() as u64);
    for (f, g) in lists.iter().zip(&got) {
        let want = ref_rewrite(rules, f);
        if &want != g {
            let which = rules.iter().position(|(pat, _)| pat.len() <= f.len() && pat.iter().zip(f).all(|(p, x)| pat_matches(p, x)));
            ctx.violation("rewrite_differs_from_first_matching_rule", "C17:rewrite_differs_from_first_matching_rule", format!("section {section}, features {:?}: result {:?}; the first matching rule in file order is #{:?} giving {:?}", f, g, which, want), json!({"rewrite.def": text, "section": section, "features": f}));
            return false;
        }
        if want.is_some() {
            ctx.bucket("some_rule_matched");
        } else {
            ctx.bucket("no_rule_matched");
        }
    }
    true
}

pub fn c17_case(ctx: &mut Ctx, rng: &mut Rng) {
    if ctx.index % 8 == 7 {
        // the rules as the trainer applies them (per section, unchanged features when no rule matches):
        // a trained dictionary's bigram tuples against the independent rewrite + expansion
        c18_dictionary(ctx, rng);
        ctx.bucket("rules_applied_by_the_trainer_checked");
        return;
    }
    let s = |x: &str| x.to_string();
    // feature lists of length <= 3 over {a, b, c, *} (and the empty list)
    let fa = ["a", "b", "c", "*"];
    let mut lists: Vec<Vec<String>> = vec![vec![]];
    for x in fa {
        lists.push(vec![s(x)]);
        for y in fa {
            lists.push(vec![s(x), s(y)]);
            for z in fa {
                lists.push(vec![s(x), s(y), s(z)]);
            }
        }
    }
    if ctx.thorough() && ctx.index == 1 && ctx.flavour == "rel" {
        c17_medium_scope(ctx, &lists);
        return;
    }
    if ctx.index % 2 == 0 && ctx.index / 2 < ctx_slices(ctx) {
        // small scope, exhaustive: all lists of <= 3 rules with patterns of length <= 2 over
        // {*, a, b, (a|b)}; every rule has its own output so that the rule applied is observable.
        // The scope is partitioned over (shard, index/2): slice t of T.
        let pa = ["*", "a", "b", "(a|b)", "(a)"];
        let mut pats: Vec<Vec<String>> = vec![];
        for x in pa {
            pats.push(vec![s(x)]);
            for y in pa {
                pats.push(vec![s(x), s(y)]);
            }
        }
        let np = pats.len(); // 30
        let total = np + np * np + np * np * np;
        let slices = (ctx.nshards * ctx_slices(ctx)) as usize;
        let t = (ctx.shard * ctx_slices(ctx) + (ctx.index / 2) % ctx_slices(ctx)) as usize;
        let mut n = 0u64;
        for id in (t..total).step_by(slices) {
            let idxs: Vec<usize> = if id < np {
                vec![id]
            } else if id < np + np * np {
                let k = id - np;
                vec![k / np, k % np]
            } else {
                let k = id - np - np * np;
                vec![k / (np * np), (k / np) % np, k % np]
            };
            let rules: Vec<Rule> = idxs.iter().enumerate().map(|(i, &p)| (pats[p].clone(), vec![format!("R{}", i + 1), s("$1"), s("$3")])).collect();
            let sec = ["unigram", "left", "right"][id % 3];
            // the other sections hold rules that must not interfere
            let noise: Vec<Rule> = vec![(vec![s("*")], vec![s("NOISE")])];
            let sections: Vec<(&str, &Vec<Rule>)> = ["unigram", "left", "right"].iter().map(|&n| (n, if n == sec { &rules } else { &noise })).collect();
            let text = rules_text(&sections);
            if !c17_check(ctx, &text, sec, &rules, &lists) {
                return;
            }
            n += 1;
            if idxs.len() == 3 && pats[idxs[0]][0] == pats[idxs[2]][0] && pats[idxs[1]][0] != pats[idxs[0]][0] {
                ctx.bucket("later_rule_shares_first_pattern_with_earlier_rule_across_an_intervening_rule");
            }
            ctx.distinct(hash_bytes(text.as_bytes()));
        }
        ctx.total("rule_lists_in_small_scope", n);
        ctx.bucket("small_scope_slice_enumerated");
        if ctx.want_sample() {
            ctx.sample(json!({"scope": "rule lists of <= 3 rules, patterns of length <= 2 over {*, a, b, (a|b)}, x all feature lists of length <= 3 over {a,b,c,*}", "slice": t, "of": slices, "rule_lists_in_slice": n, "feature_lists": lists.len()}));
        }
    } else {
        // random: up to 12 rules, patterns up to length 5, outputs mixing text and $n
        for _ in 0..20 {
            let nr = 1 + rng.below(12);
            let rules = gen_rules(rng, nr, 5);
            let other1 = gen_rules_n(rng, 3, 3);
            let other2 = gen_rules_n(rng, 3, 3);
            let sec = ["unigram", "left", "right"][rng.below(3)];
            let mut k = 0;
            let sections: Vec<(&str, &Vec<Rule>)> = ["unigram", "left", "right"]
                .iter()
                .map(|&n| {
                    if n == sec {
                        (n, &rules)
                    } else {
                        k += 1;
                        (n, if k == 1 { &other1 } else { &other2 })
                    }
                })
                .collect();
            let text = rules_text(&sections);
            let vals = ["a", "b", "名詞", "動詞", "一般", "*", "c", "x", "\u{3000}", "全\u{3000}角", "a", "b", "名詞", "*a", "a*", "(a)", "(b)", "(名詞)", "a)", "(b"];
            let rlists: Vec<Vec<String>> = (0..40).map(|_| (0..if rng.chance(0.3) { 9 + rng.below(14) } else { rng.below(7) }).map(|k| if rng.chance(0.2) { format!("v{k}") } else { rng.pick(&vals).to_string() }).collect()).collect();
            if !c17_check(ctx, &text, sec, &rules, &rlists) {
                return;
            }
            ctx.distinct(hash_bytes(text.as_bytes()));
            if ctx.want_sample() && nr >= 4 {
                ctx.sample(json!({"rewrite.def": text, "section": sec, "feature_lists_tried": rlists.len()}));
            }
        }
        ctx.bucket("random_rule_lists");
    }
}

/// Thorough tier: all lists of <= 3 rules with patterns of length <= 3 over {*, a, b, (a|b)}
/// (84 + 84^2 + 84^3 = 599 844 rule lists), each against all 341 feature lists of length <= 4
/// over {a, b, c, *}; the lists are split over the shards.
fn c17_medium_scope(ctx: &mut Ctx, lists3: &[Vec<String>]) {
    let s = |x: &str| x.to_string();
    let fa = ["a", "b", "c", "*"];
    let mut lists: Vec<Vec<String>> = lists3.to_vec();
    for x in fa {
        for y in fa {
            for z in fa {
                for w in fa {
                    lists.push(vec![s(x), s(y), s(z), s(w)]);
                }
            }
        }
    }
    let pa = ["*", "a", "b", "(a|b)"];
    let mut pats: Vec<Vec<String>> = vec![];
    for x in pa {
        pats.push(vec![s(x)]);
        for y in pa {
            pats.push(vec![s(x), s(y)]);
            for z in pa {
                pats.push(vec![s(x), s(y), s(z)]);
            }
        }
    }
    let np = pats.len(); // 84
    let total = np + np * np + np * np * np;
    let mut n = 0u64;
    for id in ((ctx.shard as usize)..total).step_by(ctx.nshards as usize) {
        let idxs: Vec<usize> = if id < np {
            vec![id]
        } else if id < np + np * np {
            let k = id - np;
            vec![k / np, k % np]
        } else {
            let k = id - np - np * np;
            vec![k / (np * np), (k / np) % np, k % np]
        };
        let rules: Vec<Rule> = idxs.iter().enumerate().map(|(i, &p)| (pats[p].clone(), vec![format!("R{}", i + 1), s("$2")])).collect();
        let sec = ["unigram", "left", "right"][id % 3];
        let text = rules_text(&[(sec, &rules)]);
        if !c17_check(ctx, &text, sec, &rules, &lists) {
            return;
        }
        n += 1;
    }
    ctx.total("rule_lists_in_medium_scope", n);
    ctx.bucket("medium_scope_slice_enumerated");
}

/// number of slices each shard splits its part of the small scope into (so that the whole scope is
/// covered when every shard runs `2 * slices` cases)
fn ctx_slices(ctx: &Ctx) -> u64 {
    if ctx.thorough() {
        1
    } else {
        4
    }
}

// ---------------------------------------------------------------- C18

pub fn c18_case(ctx: &mut Ctx, rng: &mut Rng) {
    if ctx.index % 3 != 0 {
        c18_hook(ctx, rng);
    } else {
        c18_dictionary(ctx, rng);
    }
}

fn c18_hook(ctx: &mut Ctx, rng: &mut Rng) {
    let (ut, bt) = gen_templates(rng);
    let mut fd = String::new();
    for t in &ut {
        fd += &format!("UNIGRAM {t}\n");
    }
    for (l, r) in &bt {
        fd += &format!("BIGRAM {l}/{r}\n");
    }
    let ncalls = 5 + rng.below(40);
    let mut calls: Vec<(char, Vec<String>, u32)> = vec![];
    for i in 0..ncalls {
        let side = ['U', 'L', 'R'][rng.below(3)];
        let mut f = gen_cells(rng, i % 7);
        if rng.chance(0.2) {
            f.truncate(1 + rng.below(2)); // short rows: indices beyond the row
        }
        calls.push((side, f, rng.below(5) as u32));
    }
    let exp = match guarded(|| vibrato::verif::expand(&fd, &calls).map_err(|e| e.to_string())) {
        Ok(Ok(e)) => e,
        Ok(Err(e)) => {
            ctx.violation("valid_feature_def_rejected", "C18:valid_feature_def_rejected", e, json!({"feature.def": fd}));
            return;
        }
        Err(p) => {
            ctx.violation("expansion_panicked", &format!("C18:{}", panic_class(&p)), p, json!({"feature.def": fd}));
            return;
        }
    };
    // independent expansion; ids must intern equal strings to equal ids, different strings to different ids
    let mut maps: HashMap<char, HashMap<String, u32>> = HashMap::new();
    let mut rev: HashMap<char, HashMap<u32, String>> = HashMap::new();
    for (ci, (side, feats, cate)) in calls.iter().enumerate() {
        ctx.eval();
        let want: Vec<Option<String>> = match side {
            'U' => ut.iter().map(|t| ref_expand(t, 'F', feats, *cate)).collect(),
            'L' => bt.iter().map(|t| ref_expand(&t.0, 'L', feats, 0)).collect(),
            _ => bt.iter().map(|t| ref_expand(&t.1, 'R', feats, 0)).collect(),
        };
        let want_seq: Vec<Option<String>> = if *side == 'U' { want.iter().filter(|x| x.is_some()).cloned().collect() } else { want.clone() };
        let got = &exp.ids[ci];
        let cj = || json!({"feature.def": fd, "call": ci, "side": side.to_string(), "features": feats, "category": cate, "expected_strings": want_seq, "ids": got});
        if got.len() != want_seq.len() {
            ctx.violation("expansion_count_differs", "C18:expansion_count_differs", format!("{} ids for {} expected expansions", got.len(), want_seq.len()), cj());
            return;
        }
        for (g, w) in got.iter().zip(&want_seq) {
            match (g, w) {
                (None, None) => ctx.bucket("optional_reference_suppressed_template"),
                (Some(id), Some(s)) => {
                    let m = maps.entry(*side).or_default();
                    let r = rev.entry(*side).or_default();
                    if let Some(prev) = m.get(s) {
                        if prev != id {
                            ctx.violation("equal_strings_different_ids", "C18:equal_strings_different_ids", format!("{s:?} had id {prev}, now {id}"), cj());
                            return;
                        }
                        ctx.bucket("string_seen_again_same_id");
                    } else {
                        if let Some(other) = r.get(id) {
                            ctx.violation("different_strings_same_id", "C18:different_strings_same_id", format!("id {id} stands for {other:?} and for {s:?}"), cj());
                            return;
                        }
                        m.insert(s.clone(), *id);
                        r.insert(*id, s.clone());
                    }
                }
                _ => {
                    ctx.violation("suppression_differs", "C18:suppression_differs", format!("id {:?} but expected expansion {:?}", g, w), cj());
                    return;
                }
            }
        }
        if feats.len() <= 2 {
            ctx.bucket("short_feature_row");
        }
    }
    // the real tables must be exactly the strings the independent expander produced
    for (side, table) in [('U', &exp.unigram_table), ('L', &exp.left_table), ('R', &exp.right_table)] {
        let mut want: Vec<(String, u32)> = maps.get(&side).map(|m| m.iter().map(|(k, v)| (k.clone(), *v)).collect()).unwrap_or_default();
        want.sort();
        if &want != table {
            let diff: Vec<_> = table.iter().filter(|x| !want.contains(x)).take(3).collect();
            let diff2: Vec<_> = want.iter().filter(|x| !table.contains(x)).take(3).collect();
            ctx.violation("feature_table_differs_from_independent_expansion", "C18:feature_table_differs", format!("side {side}: real table has {:?}, independent expansion has {:?}", diff, diff2), json!({"feature.def": fd, "calls": calls.len()}));
            return;
        }
    }
    ctx.distinct(hash_bytes(format!("{fd}{calls:?}").as_bytes()));
    if ctx.want_sample() {
        ctx.sample(json!({"feature.def": fd, "calls": calls.len(), "left_table_head": exp.left_table.iter().take(4).collect::<Vec<_>>()}));
    }
}

fn parse_bigram_side(text: &str) -> Option<Vec<Vec<String>>> {
    // "id\tcell,cell,..." with CSV quoting; returns rows indexed by id-1
    let mut rows = vec![];
    for (i, line) in text.lines().enumerate() {
        let (id, rest) = line.split_once('\t')?;
        if id.parse::<usize>().ok()? != i + 1 {
            return None;
        }
        rows.push(csv_cells(rest)?);
    }
    Some(rows)
}

pub fn csv_cells(s: &str) -> Option<Vec<String>> {
    let b: Vec<char> = s.chars().collect();
    let mut out = vec![];
    let mut i = 0;
    loop {
        let mut f = String::new();
        if i < b.len() && b[i] == '"' {
            i += 1;
            loop {
                if i >= b.len() {
                    return None;
                }
                if b[i] == '"' {
                    if i + 1 < b.len() && b[i + 1] == '"' {
                        f.push('"');
                        i += 2;
                    } else {
                        i += 1;
                        break;
                    }
                } else {
                    f.push(b[i]);
                    i += 1;
                }
            }
        } else {
            while i < b.len() && b[i] != ',' {
                f.push(b[i]);
                i += 1;
            }
        }
        out.push(f);
        if i >= b.len() {
            break;
        }
        if b[i] != ',' {
            return None;
        }
        i += 1;
    }
    Some(out)
}

fn c18_dictionary(ctx: &mut Ctx, rng: &mut Rng) {
    let ts = gen_trainset(rng);
    let mut m = match train(&ts) {
        Ok(m) => m,
        Err(_) => {
            ctx.bucket("training_failed");
            return;
        }
    };
    if vibrato::verif::model_bigram_rows(&m) == 0 {
        ctx.bucket("model_with_empty_bigram_table_skipped");
        return;
    }
    ctx.bucket("training_succeeded");
    // half of the cases: the model goes through write_model/read_model first (as `dictgen` does),
    // and a user lexicon with new feature strings is registered afterwards
    let reload = rng.chance(0.5);
    if reload {
        let mut bytes = vec![];
        let r = guarded(|| m.write_model(&mut bytes).map_err(|e| e.to_string())).and_then(|r| r).and_then(|_| guarded(|| Model::read_model(bytes.as_slice()).map_err(|e| e.to_string())).and_then(|r| r));
        match r {
            Ok(m2) => m = m2,
            Err(e) => {
                ctx.note(format!("model round trip failed (C15's business): {e}"));
                return;
            }
        }
        ctx.bucket("model_reloaded_before_generation");
    }
    let user_csv = ts.user_csv();
    if !user_csv.is_empty() {
        if let Err(e) = guarded(|| m.read_user_lexicon(user_csv.as_bytes()).map_err(|e| e.to_string())).and_then(|r| r) {
            ctx.note(format!("read_user_lexicon failed: {e}"));
            return;
        }
    }
    let f = match generate(&mut m) {
        Ok(f) => f,
        Err(e) => {
            ctx.violation("generation_failed", "C18:generation_failed", e, ts.texts());
            return;
        }
    };
    let (lex, unk) = (String::from_utf8_lossy(&f.lex).to_string(), String::from_utf8_lossy(&f.unk).to_string());
    let (bl, br) = (String::from_utf8_lossy(&f.bleft).to_string(), String::from_utf8_lossy(&f.bright).to_string());
    let (left_rows, right_rows) = match (parse_bigram_side(&bl), parse_bigram_side(&br)) {
        (Some(a), Some(b)) => (a, b),
        _ => {
            ctx.violation("bigram_side_file_malformed", "C18:bigram_side_file_malformed", "bigram.left/right are not `id<TAB>csv row` with dense ascending ids".into(), json!({"training": ts.texts(), "bigram.left": bl, "bigram.right": br}));
            return;
        }
    };
    let cj = |d: String| json!({"training": ts.texts(), "lex.csv": lex, "unk.def": unk, "bigram.left": bl, "bigram.right": br, "detail": d});
    // words: seed rows then unknown entries (emitted order); their feature cells come from the generator
    let mut order: Vec<usize> = (0..ts.unk.len()).collect();
    order.sort_by_key(|&i| ts.unk[i].0);
    let mut words: Vec<(String, Vec<String>, u32, u32)> = vec![]; // (name, cells, left id, right id)
    for (i, line) in lex.lines().enumerate() {
        if let Some((fl, _)) = split4(line) {
            words.push((format!("lex row {i} {:?}", ts.seed[i].0), ts.seed[i].1.clone(), fl[1].parse().unwrap_or(0), fl[2].parse().unwrap_or(0)));
        }
    }
    for (k, line) in unk.lines().enumerate() {
        if let Some((fl, _)) = split4(line) {
            let cells = ts.unk[order[k]].1.clone();
            words.push((format!("unk row {k} {}", fl[0]), cells, fl[1].parse().unwrap_or(0), fl[2].parse().unwrap_or(0)));
        }
    }
    if words.len() != ts.seed.len() + ts.unk.len() {
        ctx.note("row count mismatch (C14's business)".into());
        return;
    }
    let n_class_words = words.len();
    // user rows given as 0,0,0 carry model classes too: the listing clause applies to them
    let user_txt = String::from_utf8_lossy(&f.user).to_string();
    for (i, line) in user_txt.lines().enumerate() {
        if let (Some((fl, _)), Some(u)) = (split4(line), ts.user.get(i)) {
            if u.1 == 0 && u.2 == 0 && u.3 == 0 {
                words.push((format!("user row {i} {:?}", u.0), u.4.clone(), fl[1].parse().unwrap_or(0), fl[2].parse().unwrap_or(0)));
                ctx.bucket("user_word_with_trained_ids_checked");
            }
        }
    }
    ctx.eval();
    // %R tuple (right rewriter) <-> left id ; %L tuple (left rewriter) <-> right id
    let mut by_tuple_l: BTreeMap<Vec<Option<String>>, u32> = BTreeMap::new();
    let mut by_tuple_r: BTreeMap<Vec<Option<String>>, u32> = BTreeMap::new();
    for (wi, (name, cells, lid, rid)) in words.iter().enumerate() {
        let class_word = wi < n_class_words;
        let rf = ref_rewrite(&ts.rules[2], cells).unwrap_or_else(|| cells.clone());
        let lf = ref_rewrite(&ts.rules[1], cells).unwrap_or_else(|| cells.clone());
        let rt: Vec<Option<String>> = ts.bigram_t.iter().map(|t| ref_expand(&t.1, 'R', &rf, 0)).collect();
        let lt: Vec<Option<String>> = ts.bigram_t.iter().map(|t| ref_expand(&t.0, 'L', &lf, 0)).collect();
        for (side, tuple, id, rows, map) in [("left", &rt, *lid, &left_rows, &mut by_tuple_l), ("right", &lt, *rid, &right_rows, &mut by_tuple_r)] {
            if !class_word {
                // user words: listing clause only
            } else if let Some(prev) = map.get(tuple) {
                if *prev != id {
                    ctx.violation("equal_tuples_different_connection_ids", "C18:equal_tuples_different_connection_ids", format!("{name}: its {} bigram tuple {:?} equals that of a word with {side} id {prev}, but it has {side} id {id}", if side == "left" { "%R" } else { "%L" }, tuple), cj(String::new()));
                    return;
                }
                ctx.bucket("words_sharing_a_connection_class");
            } else {
                map.insert(tuple.clone(), id);
            }
            let row = match rows.get((id as usize).wrapping_sub(1)) {
                Some(r) => r,
                None => {
                    ctx.violation("connection_id_not_listed", "C18:connection_id_not_listed", format!("{name} has {side} id {id} but bigram.{side} has {} rows", rows.len()), cj(String::new()));
                    return;
                }
            };
            for (p, cell) in row.iter().enumerate() {
                let e = tuple.get(p).cloned().flatten();
                let ok = cell == "*" || Some(cell.clone()) == e;
                if !ok {
                    ctx.violation("listed_tuple_differs_from_expansion", "C18:listed_tuple_differs_from_expansion", format!("{name} ({side} id {id}): bigram.{side} lists {:?} at position {p}, the word's expansion there is {:?} (whole tuple {:?})", cell, e, tuple), cj(String::new()));
                    return;
                }
                if cell != "*" {
                    ctx.bucket("listed_feature_equals_expansion");
                } else if e.is_some() {
                    ctx.bucket("feature_dropped_by_training_shown_as_star");
                }
            }
            if row.len() != ts.bigram_t.len() {
                ctx.violation("listed_tuple_has_wrong_length", "C18:listed_tuple_has_wrong_length", format!("bigram.{side} row for id {id} has {} cells, there are {} BIGRAM templates", row.len(), ts.bigram_t.len()), cj(String::new()));
                return;
            }
        }
    }
    if ts.rules[1].len() + ts.rules[2].len() > 0 {
        ctx.bucket("with_left_or_right_rewrite_rules");
    }
    ctx.total("words_checked", words.len() as u64);
    ctx.distinct(hash_bytes(format!("{lex}{bl}{br}").as_bytes()));
    if ctx.want_sample() {
        ctx.sample(json!({"feature.def": ts.feature_def(), "rewrite.def": ts.rewrite_def(), "bigram.left_head": bl.lines().take(3).collect::<Vec<_>>(), "lex.csv_head": lex.lines().take(3).collect::<Vec<_>>()}));
    }
}
