//! C05 (write/read round trip), C07 (compact connectors), C09 (truncated images), C11 (CSV rows),
//! C13 (reordering statistics).
use crate::gen::*;
use crate::model::*;
use crate::oracles::*;
use crate::real::*;
use crate::report::Ctx;
use crate::rng::{hash_bytes, Rng};
use crate::tokprops::*;
use serde_json::json;
use std::io::{Read, Write};
use vibrato::dictionary::{Dictionary, LexType, WordIdx};
use vibrato::Tokenizer;

// ---------------------------------------------------------------- fault-injecting I/O

pub struct ChunkReader<'a> {
    pub data: &'a [u8],
    pub pos: usize,
    pub rng: Rng,
    /// 0: one byte per call, 1: random chunks, 2: random chunks + spurious Interrupted,
    /// 3: a first chunk shorter than the header, then random chunks
    pub mode: u8,
    pub fail_at: Option<usize>,
}

impl Read for ChunkReader<'_> {
    fn read(&mut self, buf: &mut [u8]) -> std::io::Result<usize> {
        if let Some(k) = self.fail_at {
            if self.pos >= k {
                return Err(std::io::Error::new(std::io::ErrorKind::Other, "injected read fault"));
            }
        }
        if self.mode == 2 && self.rng.chance(0.2) {
            return Err(std::io::Error::new(std::io::ErrorKind::Interrupted, "spurious"));
        }
        let remaining = self.data.len() - self.pos;
        let mut n = match self.mode {
            0 => 1,
            3 if self.pos == 0 => 1 + self.rng.below(20),
            _ => 1 + self.rng.below(4096),
        };
        n = n.min(remaining).min(buf.len());
        if let Some(k) = self.fail_at {
            n = n.min(k - self.pos);
        }
        buf[..n].copy_from_slice(&self.data[self.pos..self.pos + n]);
        self.pos += n;
        Ok(n)
    }
}

pub struct FailWriter {
    pub buf: Vec<u8>,
    pub limit: usize,
}

impl Write for FailWriter {
    fn write(&mut self, b: &[u8]) -> std::io::Result<usize> {
        if self.buf.len() >= self.limit {
            return Err(std::io::Error::new(std::io::ErrorKind::Other, "injected write fault"));
        }
        let n = b.len().min(self.limit - self.buf.len());
        self.buf.extend_from_slice(&b[..n]);
        Ok(n)
    }
    fn flush(&mut self) -> std::io::Result<()> {
        Ok(())
    }
}

// ---------------------------------------------------------------- C05

#[derive(Clone, Debug)]
enum LaterOp {
    LoadUser(bool),
    Clear,
    Map(Vec<usize>, Vec<usize>),
    WriteRead,
}

fn apply_later(d: Dictionary, op: &LaterOp, u1: &[LexRow], u2: &[LexRow]) -> Result<Result<Dictionary, String>, String> {
    match op {
        LaterOp::LoadUser(first) => load_user(d, Some(if *first { u1 } else { u2 })),
        LaterOp::Clear => load_user(d, None),
        LaterOp::Map(pl, pr) => {
            let (li, ri) = (perm_to_iter(pl), perm_to_iter(pr));
            guarded(move || d.map_connection_ids_from_iter(li, ri).map_err(|e| e.to_string()))
        }
        LaterOp::WriteRead => match write_dict(&d) {
            Ok((b, _)) => read_dict(&b),
            Err(e) => Err(e),
        },
    }
}

fn token_table(d: Dictionary, optss: &[Opts], sentences: &[String]) -> Result<(Vec<Vec<Tok>>, Dictionary), String> {
    let mut out = vec![];
    let mut d = Some(d);
    for &o in optss {
        let tok = make_tokenizer(d.take().unwrap(), o)?;
        let mut w = tok.new_worker();
        for s in sentences {
            out.push(tokenize(&mut w, s)?);
        }
        drop(w);
        let (bytes, _) = write_dict(tok.dictionary())?;
        d = Some(read_dict(&bytes)?.map_err(|e| e)?);
    }
    Ok((out, d.unwrap()))
}

pub fn c05_case(ctx: &mut Ctx, rng: &mut Rng, stage: &str, xdir: &str) {
    let cfg = GenCfg { allow_u0000_range: rng.chance(0.3), ..Default::default() };
    let mut case = gen_tokcase(rng, &cfg, 10, true);
    case.roundtrip = false;
    if cfg.allow_u0000_range && case.spec.cats.len() > 1 && rng.chance(0.7) {
        // U+0000 (the table entry that out-of-table lookups fall back to) in a category of its own choice
        let k = 1 + rng.below(case.spec.cats.len() - 1);
        case.spec.ranges.insert(0, Range { lo: 0, hi: if rng.chance(0.5) { 0 } else { 0x1F }, cats: vec![k] });
        ctx.bucket("char_def_assigns_U+0000");
    }
    if rng.chance(0.02) {
        // a feature string of 65536 bytes or more (each cell stays below the 4096-byte limit of the CSV reader)
        let cell = "y".repeat(3400 + rng.below(600));
        let n = 65_536 / cell.len() + 1 + rng.below(3);
        let row = rng.below(case.spec.lex.len().min(2));
        case.spec.lex[row].feat = format!("G,{}", vec![cell; n].join(","));
        ctx.bucket("feature_string_of_65536_bytes_or_more");
    }
    // characters behind the last char.def range, up to the end of the table
    case.sentences.push("\u{FFE5}a\u{FFFD}".to_string());
    case.sentences.push("\u{FFFF}\u{FFFE}".to_string());
    let u1 = gen_user(rng, &case.spec, &cfg);
    let u2 = gen_user(rng, &case.spec, &cfg);
    let (nr, nl) = case.spec.conn.dims();
    let nlater = rng.below(4);
    let later: Vec<LaterOp> = (0..nlater)
        .map(|_| match rng.below(5) {
            0 => LaterOp::LoadUser(true),
            1 => LaterOp::LoadUser(false),
            2 => LaterOp::Clear,
            3 => LaterOp::Map(gen_perm_ids(rng, nl), gen_perm_ids(rng, nr)),
            _ => LaterOp::WriteRead,
        })
        .collect();
    let fail_k_frac = rng.next();
    let build = |case: &TokCase| match prepare(case) {
        Prep::Ready { dict, .. } => Some(dict),
        _ => None,
    };
    let d = match build(&case) {
        Some(d) => d,
        None => {
            ctx.bucket("dict_rejected");
            return;
        }
    };
    ctx.bucket("dict_accepted");
    ctx.bucket(&format!("connector_{}", case.spec.conn.kind()));
    if case.user.is_some() {
        ctx.bucket("with_user_lexicon");
    }
    if case.mapping.is_some() {
        ctx.bucket("with_id_mapping");
    }
    let later_s = format!("{later:?}");
    let cj = |extra: &str| json!({"files": case.texts(), "opts": case.opts, "sentences": case.sentences, "later_ops": later_s, "detail": extra});
    // write: byte count
    let (bytes, reported) = match write_dict(&d) {
        Ok(x) => x,
        Err(e) => {
            ctx.violation("write_failed", "C05:write_failed", e, cj(""));
            return;
        }
    };
    ctx.eval();
    if reported != bytes.len() {
        ctx.violation("write_reports_wrong_byte_count", "C05:write_reports_wrong_byte_count", format!("write returned {reported} but emitted {} bytes", bytes.len()), cj(""));
        return;
    }
    // failing writer: Err, and the bytes emitted so far are a prefix of the image
    {
        let k = (fail_k_frac % (bytes.len() as u64)) as usize;
        let mut fw = FailWriter { buf: vec![], limit: k };
        let r = guarded(|| d.write(&mut fw).is_ok());
        match r {
            Ok(false) => {
                if fw.buf[..] != bytes[..fw.buf.len()] {
                    ctx.violation("interrupted_write_not_a_prefix", "C05:interrupted_write_not_a_prefix", format!("writer failing after {k} bytes"), cj(""));
                } else {
                    ctx.bucket("failing_writer_yields_err_and_prefix");
                }
            }
            Ok(true) => ctx.violation("write_error_swallowed", "C05:write_error_swallowed", format!("writer failing after {k} bytes but write returned Ok"), cj("")),
            Err(p) => ctx.violation("write_panicked", "C05:write_panicked", p, cj("")),
        }
    }
    // a sink that accepts only a few bytes per call (a pipe, a rate-limited writer) gets the same image
    {
        struct ChunkWriter {
            buf: Vec<u8>,
            max: usize,
        }
        impl Write for ChunkWriter {
            fn write(&mut self, b: &[u8]) -> std::io::Result<usize> {
                let n = b.len().min(self.max);
                self.buf.extend_from_slice(&b[..n]);
                Ok(n)
            }
            fn flush(&mut self) -> std::io::Result<()> {
                Ok(())
            }
        }
        let mut cw = ChunkWriter { buf: vec![], max: [1usize, 7, 16, 4096][(fail_k_frac % 4) as usize] };
        ctx.eval();
        match guarded(|| d.write(&mut cw).map_err(|e| e.to_string())) {
            Ok(Ok(n)) if n == cw.buf.len() && cw.buf == bytes => ctx.bucket("image_written_through_short_write_sink"),
            Ok(Ok(n)) => {
                ctx.violation("short_write_sink_gets_another_image", "C05:short_write_sink_gets_another_image", format!("a sink accepting at most {} bytes per write call: write reported {n}, the sink holds {} bytes, the image has {}; equal bytes: {}", cw.max, cw.buf.len(), bytes.len(), cw.buf == bytes), cj(""));
                return;
            }
            Ok(Err(e)) | Err(e) => {
                ctx.violation("write_failed", "C05:write_failed_on_short_write_sink", e, cj(""));
                return;
            }
        }
    }
    // read back
    let d2 = match read_dict(&bytes) {
        Ok(Ok(d)) => d,
        Ok(Err(e)) => {
            ctx.violation("read_of_written_image_failed", "C05:read_of_written_image_failed", e, cj(""));
            return;
        }
        Err(p) => {
            ctx.violation("read_panicked", &format!("C05:read:{}", panic_class(&p)), p, cj(""));
            return;
        }
    };
    // the same bytes delivered in small pieces (a pipe, a chained buffer) must load as well
    {
        let mode = (fail_k_frac % 2) as u8 + 1;
        let rdr = ChunkReader { data: &bytes, pos: 0, rng: Rng(fail_k_frac | 1), mode, fail_at: None };
        match guarded(|| Dictionary::read(rdr).map_err(|e| e.to_string())) {
            Ok(Ok(dx)) => match write_dict(&dx) {
                Ok((bx, _)) if bx == bytes => ctx.bucket("image_read_through_chunked_reader"),
                _ => {
                    ctx.violation("chunked_read_changes_dictionary", "C05:chunked_read_changes_dictionary", format!("reader mode {mode}"), cj(""));
                    return;
                }
            },
            Ok(Err(e)) => {
                ctx.violation("written_image_rejected_through_chunked_reader", "C05:written_image_rejected_through_chunked_reader", format!("reader delivering random chunks (mode {mode}): {e}"), cj(""));
                return;
            }
            Err(p) => {
                ctx.violation("read_panicked", &format!("C05:read:{}", panic_class(&p)), p, cj(""));
                return;
            }
        }
    }
    // the image is exactly the bytes `write` counted: what follows it in a stream (here a user lexicon, read by
    // the next operation from the same reader) is still there after `read`
    if fail_k_frac % 4 == 0 {
        let mut v = bytes.clone();
        v.extend_from_slice(lex_csv(&u1).as_bytes());
        let mut cur = std::io::Cursor::new(v);
        let streamed = guarded(|| -> Result<Dictionary, String> {
            let dx = Dictionary::read(&mut cur).map_err(|e| e.to_string())?;
            dx.reset_user_lexicon_from_reader(Some(&mut cur)).map_err(|e| e.to_string())
        });
        let direct = read_dict(&bytes).and_then(|r| match r {
            Ok(dx) => load_user(dx, Some(&u1)),
            Err(e) => Ok(Err(e)),
        });
        ctx.eval();
        match (streamed, direct) {
            (Ok(Ok(a)), Ok(Ok(b))) => match (write_dict(&a), write_dict(&b)) {
                (Ok((x, _)), Ok((y, _))) if x == y => ctx.bucket("image_followed_by_user_lexicon_in_one_stream"),
                _ => {
                    ctx.violation("read_consumed_more_than_the_image", "C05:read_consumed_more_than_the_image", "read(&mut stream) followed by reset_user_lexicon_from_reader(&mut stream) on `image ++ user.csv` gives another dictionary than read(image) followed by loading user.csv".into(), cj(""));
                    return;
                }
            },
            (Ok(Err(_)), Ok(Err(_))) => {}
            (a, b) => {
                let f = |r: &Result<Result<Dictionary, String>, String>| match r {
                    Ok(Ok(_)) => "Ok".to_string(),
                    Ok(Err(e)) => format!("Err({e})"),
                    Err(p) => format!("panic({p})"),
                };
                ctx.violation("read_consumed_more_than_the_image", "C05:read_consumed_more_than_the_image", format!("`image ++ user.csv` read through one `&mut` reader: {}; image and user.csv read separately: {}", f(&a), f(&b)), cj(""));
                return;
            }
        }
    }
    let (b2, _) = match write_dict(&d2) {
        Ok(x) => x,
        Err(e) => {
            ctx.violation("rewrite_failed", "C05:rewrite_failed", e, cj(""));
            return;
        }
    };
    if b2 != bytes {
        let at = b2.iter().zip(&bytes).position(|(a, b)| a != b).unwrap_or(b2.len().min(bytes.len()));
        ctx.violation("rewritten_image_differs", "C05:rewritten_image_differs", format!("write(read(write(D))) differs from write(D): lengths {} vs {}, first difference at byte {at}", b2.len(), bytes.len()), cj(""));
        return;
    }
    // connector equality, every id pair
    for r in 0..nr {
        for l in 0..nl {
            let a = vibrato::verif::conn_cost(&d, r as u16, l as u16);
            let b = match guarded(|| vibrato::verif::conn_cost(&d2, r as u16, l as u16)) {
                Ok(b) => b,
                Err(p) => {
                    ctx.violation("reloaded_cost_lookup_panicked", &format!("C05:cost:{}", panic_class(&p)), p, cj(""));
                    return;
                }
            };
            if a != b {
                ctx.violation("reloaded_connection_cost_differs", "C05:reloaded_connection_cost_differs", format!("cost({r},{l}) = {a} in D but {b} in the reloaded dictionary"), cj(""));
                return;
            }
        }
    }
    ctx.total("id_pairs_compared", (nr * nl) as u64);
    // tokens: D vs reloaded, then after the same later operations on both
    let img_hash = hash_bytes(&bytes);
    let mut pair = (d, d2);
    let mut tok_hash: u64 = 0;
    for step in 0..=later.len() {
        if step > 0 {
            let op = &later[step - 1];
            let (a, b) = pair;
            let ra = apply_later(a, op, &u1, &u2);
            let rb = apply_later(b, op, &u1, &u2);
            pair = match (ra, rb) {
                (Ok(Ok(a)), Ok(Ok(b))) => (a, b),
                (Ok(Err(_)), Ok(Err(_))) => return,
                (ra, rb) => {
                    let f = |r: &Result<Result<Dictionary, String>, String>| match r {
                        Ok(Ok(_)) => "Ok".to_string(),
                        Ok(Err(e)) => format!("Err({e})"),
                        Err(p) => format!("panic({p})"),
                    };
                    ctx.violation("later_operation_outcome_differs", "C05:later_operation_outcome_differs", format!("step {step} {op:?}: original {} / reloaded {}", f(&ra), f(&rb)), cj(""));
                    return;
                }
            };
            ctx.bucket(match op {
                LaterOp::LoadUser(_) => "later_load_user",
                LaterOp::Clear => "later_clear",
                LaterOp::Map(..) => "later_map",
                LaterOp::WriteRead => "later_write_read",
            });
        }
        let (a, b) = pair;
        let (wa, wb) = (write_dict(&a), write_dict(&b));
        match (&wa, &wb) {
            (Ok((x, _)), Ok((y, _))) if x == y => {}
            _ => {
                ctx.violation("images_differ_after_later_operations", "C05:images_differ_after_later_operations", format!("after step {step}"), cj(""));
                return;
            }
        }
        let ta = token_table(a, &case.opts, &case.sentences);
        let tb = token_table(b, &case.opts, &case.sentences);
        pair = match (ta, tb) {
            (Ok((x, a)), Ok((y, b))) => {
                ctx.evals(x.len() as u64);
                if x != y {
                    let i = x.iter().zip(&y).position(|(p, q)| p != q).unwrap();
                    ctx.violation("reloaded_dictionary_tokenizes_differently", "C05:reloaded_dictionary_tokenizes_differently", format!("after step {step}, sentence {:?}: {:?} vs reloaded {:?}", case.sentences[i % case.sentences.len()], toks_brief(&x[i]), toks_brief(&y[i])), cj(""));
                    return;
                }
                if step == 0 {
                    tok_hash = hash_bytes(format!("{:?}", x).as_bytes());
                    if ctx.want_sample() {
                        ctx.sample(json!({"connector": case.spec.conn.kind(), "image_bytes": bytes.len(), "later_ops": later_s, "sentences": case.sentences.len(), "sample_tokens": x.iter().find(|t| t.len() >= 2).map(|t| toks_brief(t))}));
                    }
                }
                (a, b)
            }
            (Err(_), Err(_)) => return, // e.g. uncovered-category panic in both: not C05's business
            (x, y) => {
                ctx.violation("reloaded_dictionary_fails_differently", "C05:reloaded_dictionary_fails_differently", format!("after step {step}: original ok={} reloaded ok={}", x.is_ok(), y.is_ok()), cj(""));
                return;
            }
        };
    }
    ctx.distinct(hash_bytes(format!("{}{}", img_hash, later_s).as_bytes()));
    // cross-flavour exchange (portable <-> AVX2): every stage records its image and the hash of its
    // tokens; stage "avx2" reads the images of stage "main" (portable), stage "back" (portable)
    // reads those of stage "avx2". Images of independently built dictionaries need not be
    // byte-identical (hash-map order in the dual split), so only "read the foreign image,
    // behave the same, re-write the same bytes" is demanded.
    if !xdir.is_empty() && ctx.index < 400 {
        let mine = format!("{}/{}", xdir, stage);
        let _ = std::fs::create_dir_all(&mine);
        let f = format!("{}/{}-{}", mine, ctx.shard, ctx.index);
        let _ = std::fs::write(format!("{f}.img"), &bytes);
        let _ = std::fs::write(format!("{f}.tok"), format!("{tok_hash:016x}"));
        let other = match stage {
            "avx2" => "main",
            "back" => "avx2",
            _ => "",
        };
        let g = format!("{}/{}/{}-{}", xdir, other, ctx.shard, ctx.index);
        if let (false, Ok(img), Ok(th)) = (other.is_empty(), std::fs::read(format!("{g}.img")), std::fs::read_to_string(format!("{g}.tok"))) {
            ctx.eval();
            match read_dict(&img) {
                Ok(Ok(dx)) => {
                    match write_dict(&dx) {
                        Ok((bx, _)) if bx == img => {}
                        _ => {
                            ctx.violation("foreign_image_rewrites_differently", "C05:foreign_image_rewrites_differently", format!("image written by stage {other} is not reproduced by this build ({})", ctx.flavour), cj(""));
                            return;
                        }
                    }
                    match token_table(dx, &case.opts, &case.sentences) {
                        Ok((x, _)) => {
                            let h = format!("{:016x}", hash_bytes(format!("{:?}", x).as_bytes()));
                            if h != th {
                                ctx.violation("foreign_image_tokenizes_differently", "C05:foreign_image_tokenizes_differently", format!("image written by stage {other}, read by this build ({}): token hash {h}, the writer's own tokens hash to {th}", ctx.flavour), cj(""));
                                return;
                            }
                            ctx.bucket("foreign_image_read_rewritten_and_tokenized_identically");
                            if img == bytes {
                                ctx.bucket("independently_built_images_byte_identical");
                            } else {
                                ctx.bucket("independently_built_images_differ_in_bytes");
                            }
                        }
                        Err(e) => {
                            ctx.violation("foreign_image_fails_in_tokenization", "C05:foreign_image_fails_in_tokenization", e, cj(""));
                            return;
                        }
                    }
                }
                Ok(Err(e)) => ctx.violation("foreign_image_not_readable", "C05:foreign_image_not_readable", format!("image written by stage {other}: {e}"), cj("")),
                Err(p) => ctx.violation("foreign_image_read_panicked", "C05:foreign_image_read_panicked", p, cj("")),
            }
        }
    }
}

// ---------------------------------------------------------------- C09

fn c09_image(rng: &mut Rng, which: u64, rich: bool) -> Option<(Vec<u8>, String)> {
    let kind = (which % 3) as u8;
    let cfg = GenCfg { conn_kind: kind, max_lex: 20, ..Default::default() };
    let mut case = gen_tokcase(rng, &cfg, 0, false);
    if which == 3 {
        // an image whose last section (the unknown-word entries) has more than 65536 entries
        let (nr, nl) = case.spec.conn.dims();
        for i in 0..66_000 {
            case.spec.unk.push(UnkRow { cat: 0, l: rng.below(nl) as u16, r: rng.below(nr) as u16, cost: (i % 3000) as i16, feat: format!("U{i}") });
        }
        case.user = None;
        case.mapping = None;
        return match prepare(&case) {
            Prep::Ready { dict, .. } => write_dict(&dict).ok().map(|(b, _)| (b, "more than 65536 unknown-word entries".to_string())),
            _ => None,
        };
    }
    // the exhaustively cut images keep to the BMP in their surfaces: one astral character makes the trie's code table
    // (and the image) 0.5-4 MB of zeros, which the sampled image (index 3) covers
    case.spec.lex.retain(|r| r.surface.chars().all(|c| (c as u32) < 0x10000));
    if case.spec.lex.is_empty() {
        case.spec.lex.push(LexRow { surface: "a".into(), l: 0, r: 0, cost: 1, feat: "A".into() });
    }
    if rich {
        case.user = Some(gen_user(rng, &case.spec, &cfg).into_iter().filter(|r| r.surface.chars().all(|c| (c as u32) < 0x10000)).collect());
        if case.user.as_ref().map_or(false, |u| u.is_empty()) {
            case.user = None;
        }
        let (nr, nl) = case.spec.conn.dims();
        case.mapping = Some((gen_perm_ids(rng, nl), gen_perm_ids(rng, nr)));
    } else {
        case.user = None;
    }
    match prepare(&case) {
        Prep::Ready { dict, .. } => write_dict(&dict).ok().map(|(b, _)| (b, format!("{} connector{}", case.spec.conn.kind(), if rich { " + user lexicon + id mapping" } else { "" }))),
        _ => None,
    }
}

/// `Dictionary::read` on a stream of a few bytes, on a helper thread: None if it has not returned after 30 s (for
/// streams this short the time cannot be the machine's load: the call does not terminate).
fn read_short_stream(data: &[u8]) -> Option<Result<bool, String>> {
    let (tx, rx) = std::sync::mpsc::channel();
    let d = data.to_vec();
    std::thread::spawn(move || {
        let _ = tx.send(guarded(|| Dictionary::read(&d[..]).is_ok()));
    });
    rx.recv_timeout(std::time::Duration::from_secs(30)).ok()
}

/// Fault enumeration: every strict prefix of the image must be rejected with Err, no panic.
/// Image `ctx.index` is generated identically by all shards; shard s handles lengths k = s mod n.
pub fn c09_case(ctx: &mut Ctx, _rng: &mut Rng, stage: &str) {
    let which = ctx.index;
    let mut irng = Rng::for_case(ctx.seed, "C09-image", 0, which);
    let (img, desc) = match c09_image(&mut irng, which, which >= 4) {
        Some(x) => x,
        None => {
            ctx.note("image could not be built".into());
            return;
        }
    };
    let n = img.len();
    // (the large image is cut at a sample of lengths: the first 2048, the last 8192 and every ~2500th in between)
    let sampled = which == 3;
    let stride = if stage == "asan" || stage == "dbgassert" { 997 } else if sampled { 2503 } else { 1 };
    let mut k = ctx.shard as usize;
    let mut tried = 0u64;
    let cj = |k: usize| json!({"image": desc, "image_len": n, "prefix_len": k, "image_seed_index": which});
    while k < n {
        let near_boundary = stride == 1 || k < 2048 || n - k < if sampled { 8192 } else { 2048 } || k % stride < ctx.nshards as usize;
        if near_boundary {
            tried += 1;
            let outcome = if k < 64 {
                match read_short_stream(&img[..k]) {
                    Some(r) => r,
                    None => {
                        ctx.violation("read_of_truncated_image_does_not_return", "C09:read_does_not_return", format!("Dictionary::read on the first {k} bytes of the image had not returned after 30 s"), cj(k));
                        // (the reader thread keeps spinning; nothing else is tried in this process)
                        ctx.evals(tried);
                        return;
                    }
                }
            } else {
                guarded(|| Dictionary::read(&img[..k]).is_ok())
            };
            match outcome {
                Ok(false) => {}
                Ok(true) => {
                    ctx.violation("truncated_image_accepted", "C09:truncated_image_accepted", format!("the first {k} of {n} bytes were loaded as a dictionary"), cj(k));
                    break;
                }
                Err(p) => {
                    ctx.violation("read_of_truncated_image_panicked", &format!("C09:read:{}", panic_class(&p)), format!("prefix of {k} bytes: {p}"), cj(k));
                    break;
                }
            }
        }
        k += ctx.nshards as usize;
    }
    ctx.evals(tried);
    ctx.total("prefixes_enumerated", tried);
    ctx.total(&format!("image_{}_len", which), if ctx.shard == 0 { n as u64 } else { 0 });
    ctx.bucket(&format!("image_{}", desc.replace(' ', "_")));
    if stride == 1 {
        ctx.bucket("every_prefix_of_image_enumerated");
    }
    ctx.distinct(hash_bytes(format!("{which}-{}", ctx.shard).as_bytes()));
    ctx.distinct(hash_bytes(&img[..64.min(n)]) ^ which);
    if ctx.shard != 0 {
        return;
    }
    // ---- shard 0: the full image through hostile readers, wrong magic, writer faults
    for mode in 0..4u8 {
        ctx.eval();
        let rdr = ChunkReader { data: &img, pos: 0, rng: Rng(which + mode as u64), mode, fail_at: None };
        match guarded(|| Dictionary::read(rdr)) {
            Ok(Ok(d)) => match write_dict(&d) {
                Ok((b, _)) if b == img => ctx.bucket(["reader_1_byte_per_call_ok", "reader_random_chunks_ok", "reader_spurious_interrupted_ok", "reader_short_first_chunk_ok"][mode as usize]),
                _ => ctx.violation("chunked_read_changes_dictionary", "C09:chunked_read_changes_dictionary", format!("reader mode {mode}"), cj(n)),
            },
            Ok(Err(e)) => ctx.violation("full_image_rejected_with_chunked_reader", "C09:full_image_rejected_with_chunked_reader", format!("reader mode {mode}: {e}"), cj(n)),
            Err(p) => ctx.violation("read_panicked", &format!("C09:read:{}", panic_class(&p)), p, cj(n)),
        }
    }
    let mut r2 = Rng(which ^ 77);
    for _ in 0..if sampled { 12 } else { 60 } {
        let k = r2.below(n);
        ctx.eval();
        // strict prefix through a chunked reader; and a hard I/O error at offset k
        let rdr = ChunkReader { data: &img[..k], pos: 0, rng: Rng(k as u64), mode: 2, fail_at: None };
        match guarded(|| Dictionary::read(rdr).is_ok()) {
            Ok(false) => ctx.bucket("prefix_via_chunked_reader_rejected"),
            Ok(true) => ctx.violation("truncated_image_accepted", "C09:truncated_image_accepted", format!("prefix {k} via chunked reader"), cj(k)),
            Err(p) => ctx.violation("read_of_truncated_image_panicked", &format!("C09:read:{}", panic_class(&p)), p, cj(k)),
        }
        let rdr = ChunkReader { data: &img, pos: 0, rng: Rng(k as u64), mode: 1, fail_at: Some(k) };
        match guarded(|| Dictionary::read(rdr).is_ok()) {
            Ok(false) => ctx.bucket("io_error_surfaced_as_err"),
            Ok(true) => ctx.violation("io_error_swallowed", "C09:io_error_swallowed", format!("reader failing at offset {k}"), cj(k)),
            Err(p) => ctx.violation("read_panicked", &format!("C09:read:{}", panic_class(&p)), p, cj(k)),
        }
        // a writer that fails after k bytes: Err, and what it got is a strict prefix
        if let Ok(Ok(d)) = read_dict(&img) {
            let mut fw = FailWriter { buf: vec![], limit: k };
            match guarded(|| d.write(&mut fw).is_ok()) {
                Ok(false) if fw.buf[..] == img[..fw.buf.len()] && fw.buf.len() < n => ctx.bucket("interrupted_write_is_err_and_strict_prefix"),
                Ok(_) => ctx.violation("interrupted_write_not_reported", "C09:interrupted_write_not_reported", format!("writer failing after {k} bytes"), cj(k)),
                Err(p) => ctx.violation("write_panicked", "C09:write_panicked", p, cj(k)),
            }
        }
    }
    if which == 0 {
        // wrong or partial magic
        const MAGIC: &[u8] = b"VibratoTokenizer 0.5\n";
        if &img[..MAGIC.len()] != MAGIC {
            ctx.note("image does not start with the expected magic".into());
        }
        let mut tried = 0u64;
        let mut hung = false;
        let mut bad = |ctx: &mut Ctx, data: Vec<u8>, what: String| {
            tried += 1;
            if hung {
                return;
            }
            let first = if data.len() < 64 {
                match read_short_stream(&data) {
                    Some(r) => r,
                    None => {
                        hung = true;
                        ctx.violation("read_of_foreign_stream_does_not_return", "C09:read_does_not_return", format!("{what}: Dictionary::read had not returned after 30 s"), json!({"what": what}));
                        return;
                    }
                }
            } else {
                guarded(|| Dictionary::read(&data[..]).is_ok())
            };
            match first {
                Ok(false) => {}
                Ok(true) => ctx.violation("foreign_magic_accepted", "C09:foreign_magic_accepted", what.clone(), json!({"what": what})),
                Err(p) => ctx.violation("read_panicked_on_foreign_magic", &format!("C09:magic:{}", panic_class(&p)), format!("{what}: {p}"), json!({"what": what})),
            }
            // the same stream delivered one byte per read call, and in random chunks (pipes, sockets)
            for mode in [0u8, 3] {
                let rdr = ChunkReader { data: &data, pos: 0, rng: Rng(tried + mode as u64), mode, fail_at: None };
                match guarded(|| Dictionary::read(rdr).is_ok()) {
                    Ok(false) => {}
                    Ok(true) => ctx.violation("foreign_magic_accepted", "C09:foreign_magic_accepted_from_chunked_reader", format!("{what} (reader mode {mode})"), json!({"what": what, "reader": if mode == 0 { "1 byte per call" } else { "short first chunk, then random chunks" }})),
                    Err(p) => ctx.violation("read_panicked_on_foreign_magic", &format!("C09:magic:{}", panic_class(&p)), format!("{what}: {p}"), json!({"what": what})),
                }
            }
        };
        for i in 0..MAGIC.len() {
            for delta in 1..=255u8 {
                let mut v = img.clone();
                v[i] = v[i].wrapping_add(delta);
                bad(ctx, v, format!("header byte {i} changed by +{delta}"));
            }
        }
        for k in 0..MAGIC.len() {
            bad(ctx, MAGIC[..k].to_vec(), format!("only the first {k} header bytes"));
            let mut v = MAGIC[..k].to_vec();
            v.extend_from_slice(&img[MAGIC.len()..]);
            bad(ctx, v, format!("only the first {k} header bytes, followed by a valid body"));
        }
        for old in ["VibratoTokenizer 0.4\n", "VibratoTokenizer 0.3\n", "vibratotokenizer 0.5\n", "VibratoTokenizer 0.5\r"] {
            let mut v = old.as_bytes().to_vec();
            v.extend_from_slice(&img[MAGIC.len()..]);
            bad(ctx, v, format!("header {:?} followed by a valid body", old));
        }
        // streams of another kind altogether: the header decides, whatever follows it
        bad(ctx, vec![0u8; 64], "64 zero bytes".into());
        bad(ctx, vec![0u8; 4096], "4096 zero bytes".into());
        bad(ctx, vec![0xFFu8; 300], "300 bytes 0xFF".into());
        bad(ctx, b"This is a text file, not a dictionary. ".repeat(20), "a text file".into());
        bad(ctx, img[1..].to_vec(), "the image without its first byte".into());
        let mut shifted = vec![0u8];
        shifted.extend_from_slice(&img);
        bad(ctx, shifted, "NUL + the whole image".into());
        let mut old_garbage = b"VibratoTokenizer 0.4\n".to_vec();
        old_garbage.extend(std::iter::repeat(0u8).take(1000));
        bad(ctx, old_garbage, "an older header followed by 1000 zero bytes".into());
        let mut r3 = Rng(which ^ 0xC09);
        for i in 0..40 {
            let n = 22 + r3.below(3000);
            let v: Vec<u8> = (0..n).map(|_| r3.next() as u8).collect();
            bad(ctx, v, format!("{n} random bytes (#{i})"));
        }
        let mut v = img[MAGIC.len()..].to_vec();
        bad(ctx, v.clone(), "body without header".into());
        v.splice(0..0, b"\0".iter().cloned());
        bad(ctx, v, "NUL + body".into());
        ctx.evals(tried);
        ctx.total("foreign_headers_tried", tried);
        ctx.bucket("all_single_byte_header_corruptions");
    }
    if ctx.want_sample() {
        ctx.sample(json!({"image": desc, "image_len": n, "prefix_lengths_enumerated": "every k in 0..len (split over shards)", "first_32_bytes": format!("{:?}", String::from_utf8_lossy(&img[..32]))}));
    }
}

// ---------------------------------------------------------------- C11

fn c11_cell(rng: &mut Rng, s: &str) -> String {
    csv_cell(s, rng.chance(0.3))
}

pub fn c11_case(ctx: &mut Ctx, rng: &mut Rng) {
    // surfaces over an alphabet with commas, quotes, spaces and multi-byte text
    // (a carriage return is data inside a quoted cell - `csv_cell` quotes such surfaces; outside it would end the row)
    let pool: Vec<char> = vec!['a', 'b', ',', '"', ' ', 'あ', '漢', '𠮷', 'é', 'x', '\'', ';', '#', '\\', '0', '-', '\t', '/', '*', '\u{3000}', '\\', '\r'];
    // now and then hundreds of rows sharing one surface (a posting list longer than 255)
    let many_homographs = rng.chance(0.015);
    let n = if many_homographs { 256 + rng.below(60) } else { 1 + rng.below(14) };
    let user_side = rng.chance(0.4);
    let mut rows: Vec<LexRow> = vec![];
    for i in 0..n {
        let surface = if many_homographs {
            "同".to_string()
        } else if rng.chance(0.07) {
            String::new()
        } else if !rows.is_empty() && rng.chance(0.3) {
            let base = rows[rng.below(rows.len())].surface.clone();
            if rng.chance(0.5) || base.is_empty() {
                base
            } else {
                format!("{base}{}", rng.pick(&pool))
            }
        } else {
            let len = 1 + rng.below(4);
            (0..len).map(|_| *rng.pick(&pool)).collect()
        };
        // raw feature text: from empty to 40 columns; quoted cells with commas, doubled quotes
        let ncol = match rng.below(6) {
            0 => 0,
            1 => 1,
            2 => 40,
            _ => 1 + rng.below(6),
        };
        let mut cells: Vec<String> = vec![];
        for c in 0..ncol {
            cells.push(match rng.below(9) {
                8 => ["\"\\\"", "\"C:\\,D\"", "b\\", "\"c\rr\"", "\"\r\""][rng.below(5)].into(),
                7 => "t\t".into(),
                0 => "*".into(),
                1 => format!("\"q,{i}\""),
                2 => format!("\"d\"\"q{c}\""),
                3 => " sp ".into(),
                4 => String::new(),
                5 => format!("名詞{c}"),
                _ => format!("f{i}_{c}"),
            });
        }
        let feat = cells.join(",");
        let cost = match rng.below(8) {
            0 => i16::MAX,
            1 => i16::MIN,
            _ => rng.range(-500, 500) as i16,
        };
        rows.push(LexRow { surface, l: rng.below(3) as u16, r: rng.below(5) as u16, cost, feat });
        if rng.chance(0.1) {
            // the same row once more, verbatim and adjacent: two words
            let again = rows.last().unwrap().clone();
            rows.push(again);
        }
    }
    // serialise with random per-field quoting, blank lines, with/without the final newline
    let mut csv = String::new();
    for (i, r) in rows.iter().enumerate() {
        if rng.chance(0.15) {
            csv.push('\n');
        }
        let q = |rng: &mut Rng, s: String| if rng.chance(0.2) { format!("\"{s}\"") } else { s };
        csv += &format!("{},{},{},{},{}", c11_cell(rng, &r.surface), q(rng, r.l.to_string()), q(rng, r.r.to_string()), q(rng, r.cost.to_string()), r.feat);
        if i + 1 < rows.len() || rng.chance(0.5) {
            csv.push('\n');
        }
    }
    if csv.ends_with('\n') && rng.chance(0.15) {
        // blank lines at the end of the file
        csv.push('\n');
        if rng.chance(0.3) {
            csv.push('\n');
        }
    }
    let no_final_newline = !csv.ends_with('\n');
    // a feature ending in an open construct cannot be given without a final newline unambiguously: keep as generated
    // a non-square connector: 5 right ids, 3 left ids
    let matrix = "5 3\n";
    let char_def = "DEFAULT 1 0 1\n";
    let unk_def = "DEFAULT,0,0,30000,UNK\n";
    // a third arrangement: the same file as system lexicon AND as user lexicon (every user word then starts where
    // a system word of the same surface starts; both must be there)
    let both = user_side && rng.chance(0.4);
    let sys_csv = if user_side && !both { "zzz,0,0,1,S\n".to_string() } else { csv.clone() };
    let cj = || json!({"csv": csv, "side": if user_side {"user"} else {"system"}});
    let d = match build_from_texts(sys_csv.as_bytes(), char_def.as_bytes(), unk_def.as_bytes(), &ConnTexts::Matrix(matrix.as_bytes().to_vec())) {
        BuildOutcome::Ok(d) => d,
        BuildOutcome::Err(e) => {
            if (!user_side || both) && rows.iter().any(|r| !r.surface.is_empty()) {
                ctx.violation("well_formed_csv_rejected", "C11:well_formed_csv_rejected", e, cj());
            } else {
                ctx.bucket("lexicon_without_any_word_rejected");
            }
            return;
        }
        BuildOutcome::Panic(p) => {
            ctx.violation("csv_parser_panicked", &format!("C11:{}", panic_class(&p)), p, cj());
            return;
        }
    };
    let d = if user_side {
        let csv_copy = csv.clone();
        // now and then another user lexicon is installed first: the CSV under test replaces it
        let preload = rng.chance(0.3);
        if preload {
            ctx.bucket("user_lexicon_replaces_an_installed_one");
        }
        match guarded(move || {
            let d = if preload { d.reset_user_lexicon_from_reader(Some(&b"zzy,0,0,1,OLD\nab,0,0,2,OLD2\n"[..])).map_err(|e| e.to_string())? } else { d };
            d.reset_user_lexicon_from_reader(Some(csv_copy.as_bytes())).map_err(|e| e.to_string())
        }) {
            Ok(Ok(d)) => d,
            Ok(Err(e)) => {
                if rows.iter().any(|r| !r.surface.is_empty()) {
                    ctx.violation("well_formed_csv_rejected", "C11:well_formed_csv_rejected", e, cj());
                } else {
                    ctx.bucket("lexicon_without_any_word_rejected");
                }
                return;
            }
            Err(p) => {
                ctx.violation("csv_parser_panicked", &format!("C11:{}", panic_class(&p)), p, cj());
                return;
            }
        }
    } else {
        d
    };
    ctx.eval();
    let kept: Vec<&LexRow> = rows.iter().filter(|r| !r.surface.is_empty()).collect();
    let sides: Vec<LexType> = if both { vec![LexType::System, LexType::User] } else if user_side { vec![LexType::User] } else { vec![LexType::System] };
    if both {
        ctx.bucket("same_rows_as_system_and_user_lexicon");
    }
    // feature strings byte for byte, in row order
    for &lt in &sides {
    for (i, r) in kept.iter().enumerate() {
        let got = match guarded(|| d.word_feature(WordIdx { lex_type: lt, word_id: i as u32 }).to_string()) {
            Ok(g) => g,
            Err(p) => {
                ctx.violation("word_missing", "C11:word_missing", format!("row {i} ({:?}) has no word: {p}", r.surface), cj());
                return;
            }
        };
        if got != r.feat {
            ctx.violation("feature_not_verbatim", "C11:feature_not_verbatim", format!("word {i} (surface {:?}): feature {:?} but the row's text after the fourth comma is {:?}", r.surface, got, r.feat), cj());
            return;
        }
    }
    // there must be no word beyond the last row
    if guarded(|| d.word_feature(WordIdx { lex_type: lt, word_id: kept.len() as u32 }).len()).is_ok() {
        ctx.violation("extra_word", "C11:extra_word", format!("{} rows with a non-empty surface but word {} exists", kept.len(), kept.len()), cj());
        return;
    }
    }
    // homographs: tokenizing each distinct surface alone shows exactly its rows at position 0
    let tok = Tokenizer::new(d);
    let mut w = tok.new_worker();
    let mut surfaces: Vec<&str> = kept.iter().map(|r| r.surface.as_str()).collect();
    surfaces.sort();
    surfaces.dedup();
    for s in surfaces {
        ctx.eval();
        if tokenize(&mut w, s).is_err() {
            ctx.violation("tokenize_panicked", "C11:tokenize_panicked", format!("sentence {s:?}"), cj());
            w = tok.new_worker();
            continue;
        }
        let dump = vibrato::verif::dump_lattice(&w);
        let n = s.chars().count();
        for &lt in &sides {
            let mut got: Vec<(u32, u16, u16, i16)> = dump.ends[n].iter().filter(|nd| nd.start_word == 0 && lex_code(nd.lex_type) == lex_code(lt)).map(|nd| (nd.word_id, nd.left_id, nd.right_id, nd.word_cost)).collect();
            let mut want: Vec<(u32, u16, u16, i16)> = kept.iter().enumerate().filter(|(_, r)| r.surface == s).map(|(i, r)| (i as u32, r.l, r.r, r.cost)).collect();
            got.sort();
            want.sort();
            if got != want {
                ctx.violation("homographs_not_preserved", "C11:homographs_not_preserved", format!("surface {s:?} ({} lexicon): rows (id,l,r,cost) {:?} but the lattice has {:?}", if lex_code(lt) == lex_code(LexType::User) { "user" } else { "system" }, want, got), cj());
                return;
            }
            if want.len() >= 2 {
                ctx.bucket("homographs");
            }
            if want.len() >= 256 {
                ctx.bucket("256_or_more_homographs_of_one_surface");
            }
        }
    }
    if rows.iter().any(|r| r.surface.is_empty()) {
        ctx.bucket("empty_surface_row_skipped");
    }
    if no_final_newline {
        ctx.bucket("no_final_newline");
    }
    if rows.last().map_or(false, |r| r.feat.is_empty()) && no_final_newline {
        ctx.bucket("file_ends_after_fourth_comma");
    }
    if kept.iter().any(|r| r.surface.contains(',') || r.surface.contains('"')) {
        ctx.bucket("surface_with_comma_or_quote");
    }
    if kept.iter().any(|r| r.feat.contains('"')) {
        ctx.bucket("quoted_feature_cell");
    }
    if kept.iter().any(|r| r.feat.is_empty()) {
        ctx.bucket("empty_feature");
    }
    ctx.bucket(if user_side { "user_lexicon" } else { "system_lexicon" });
    if kept.len() >= 2 {
        ctx.distinct(hash_bytes(cj().to_string().as_bytes()));
    }
    if ctx.want_sample() && kept.len() >= 3 {
        ctx.sample(cj());
    }
}

// ---------------------------------------------------------------- C07

pub fn c07_case(ctx: &mut Ctx, rng: &mut Rng, stage: &str) {
    if stage.starts_with("miri") || stage == "valgrind" {
        c07_scorer(ctx, rng, true);
        return;
    }
    if ctx.index % 4 == 3 {
        c07_scorer(ctx, rng, false);
        return;
    }
    // ---- model level
    let nr = 2 + rng.below(5);
    let nl = 2 + rng.below(5);
    let raw_conn = gen_bigram(rng, nr, nl, false, None);
    let k = raw_conn.templates();
    let dual_conn = match &raw_conn {
        Conn::Bigram { right, left, costs, .. } => Conn::Bigram { right: right.clone(), left: left.clone(), costs: costs.clone(), dual: true },
        _ => unreachable!(),
    };
    // lexicon with one single-character word per id on each side (black-box probes)
    let mut lex = vec![];
    for r in 0..nr {
        lex.push(LexRow { surface: char::from_u32(0xE000 + r as u32).unwrap().to_string(), l: 0, r: r as u16, cost: 0, feat: format!("X{r}") });
    }
    for l in 0..nl {
        lex.push(LexRow { surface: char::from_u32(0xE100 + l as u32).unwrap().to_string(), l: l as u16, r: 0, cost: 0, feat: format!("Y{l}") });
    }
    let mk_spec = |conn: Conn| DictSpec {
        cats: vec![Cat { name: "DEFAULT".into(), invoke: false, group: false, length: 0 }],
        def_order: vec![0],
        ranges: vec![],
        unk: vec![UnkRow { cat: 0, l: 0, r: 0, cost: 30000, feat: "U".into() }],
        lex: lex.clone(),
        conn,
    };
    let spec_raw = mk_spec(raw_conn.clone());
    let spec_dual = mk_spec(dual_conn);
    let (br, bl, bc) = raw_conn.bigram_texts();
    let cj = |extra: String| json!({"bigram.right": br, "bigram.left": bl, "bigram.cost": bc, "templates": k, "detail": extra});
    let refd = RefDict::new(&spec_raw, None);
    ctx.bucket(&format!("templates_{}", if k < 8 { "lt8".to_string() } else if k == 8 { "eq8".into() } else if k % 8 == 0 { "multiple_of_8".into() } else { "gt8_not_multiple".into() }));
    if let Conn::Bigram { right, left, costs, .. } = &raw_conn {
        if right.iter().chain(left.iter()).any(|r| r.len() < k) {
            ctx.bucket("ragged_rows");
        }
        if costs.iter().any(|(a, b, _)| a.is_empty() && b.is_empty()) {
            ctx.bucket("cost_entry_for_empty_empty");
        }
        if costs.iter().any(|(a, b, _)| a.is_empty() != b.is_empty()) {
            ctx.bucket("cost_entry_with_one_empty_side");
        }
        if right.iter().chain(left.iter()).any(|r| r.iter().any(|c| c.contains(',') || c.contains('"'))) {
            ctx.bucket("quoted_feature_cells");
        }
    }
    let mut dicts = vec![];
    for (name, spec) in [("raw", &spec_raw), ("dual", &spec_dual)] {
        ctx.eval();
        match build_spec(spec) {
            BuildOutcome::Ok(d) => {
                if let Some(m) = conn_mismatch(&d, &refd) {
                    ctx.violation(&format!("{name}_connector_differs_from_defining_sum"), &format!("C07:{name}_connector_differs_from_defining_sum"), m, cj(String::new()));
                    return;
                }
                ctx.total("id_pairs_compared", (nr * nl) as u64);
                // a compiled dictionary is normally used after write/read: the decoded connector
                // (portable or AVX2 decode path) must compute the same sums
                match write_dict(&d).ok().and_then(|(b, _)| read_dict(&b).ok()).and_then(|r| r.ok()) {
                    Some(d2) => {
                        if let Some(m) = conn_mismatch(&d2, &refd) {
                            ctx.violation(&format!("{name}_connector_differs_after_write_read"), &format!("C07:{name}_connector_differs_after_write_read"), m, cj(String::new()));
                            return;
                        }
                        ctx.bucket("connector_compared_after_write_read");
                    }
                    None => {
                        ctx.violation(&format!("{name}_dictionary_does_not_round_trip"), &format!("C07:{name}_dictionary_does_not_round_trip"), "write/read failed".into(), cj(String::new()));
                        return;
                    }
                }
                // ... and after a random permutation of the connection ids (compact connectors permute rows)
                if let Ok(BuildOutcome::Ok(dm)) = guarded(|| build_spec(spec)) {
                    let (pl, pr) = (gen_perm_ids(rng, nl), gen_perm_ids(rng, nr));
                    let (li, ri) = (perm_to_iter(&pl), perm_to_iter(&pr));
                    match guarded(move || dm.map_connection_ids_from_iter(li, ri).map_err(|e| e.to_string())) {
                        Ok(Ok(dm)) => {
                            let spec_m = spec.mapped(&pl, &pr);
                            let refm = RefDict::new(&spec_m, None);
                            if let Some(m) = conn_mismatch(&dm, &refm) {
                                ctx.violation(&format!("{name}_connector_differs_after_id_mapping"), &format!("C07:{name}_connector_differs_after_id_mapping"), format!("lmap {:?} rmap {:?}: {m}", perm_to_iter(&pl), perm_to_iter(&pr)), cj(String::new()));
                                return;
                            }
                            ctx.bucket("connector_compared_after_id_mapping");
                        }
                        Ok(Err(e)) => {
                            ctx.violation(&format!("{name}_valid_mapping_rejected"), &format!("C07:{name}_valid_mapping_rejected"), e, cj(String::new()));
                            return;
                        }
                        Err(p) => {
                            ctx.violation(&format!("{name}_mapping_panicked"), &format!("C07:{name}_mapping:{}", panic_class(&p)), p, cj(String::new()));
                            return;
                        }
                    }
                }
                dicts.push((name, d));
            }
            BuildOutcome::Err(e) => {
                ctx.violation(&format!("{name}_connector_rejects_valid_model"), &format!("C07:{name}_connector_rejects_valid_model"), e, cj(String::new()));
                return;
            }
            BuildOutcome::Panic(p) => {
                ctx.violation(&format!("{name}_connector_build_panicked"), &format!("C07:{name}_build:{}", panic_class(&p)), p, cj(String::new()));
                return;
            }
        }
    }
    // matrix.def materialised from the sums
    let m = raw_conn.full_matrix();
    let mat = Conn::Matrix { nr, nl, cells: m.iter().map(|&c| c as i16).collect() };
    if let BuildOutcome::Ok(d) = build_spec(&mk_spec(mat)) {
        dicts.push(("matrix", d));
    }
    // black box: two-token probes read every cell through total_cost; all three tokenize identically
    let mut results: Vec<(&str, Vec<Vec<Tok>>)> = vec![];
    let mut probes: Vec<(usize, usize, String)> = vec![];
    for r in 0..nr {
        for l in 0..nl {
            probes.push((r, l, format!("{}{}", char::from_u32(0xE000 + r as u32).unwrap(), char::from_u32(0xE100 + l as u32).unwrap())));
        }
    }
    for (name, d) in dicts {
        let tok = Tokenizer::new(d);
        let mut w = tok.new_worker();
        let mut res = vec![];
        for (r, l, s) in &probes {
            ctx.eval();
            match tokenize(&mut w, s) {
                Ok(t) => {
                    if t.len() == 2 && t[0].r as usize == *r && t[1].l as usize == *l {
                        let seen = t[1].total as i64 - t[0].total as i64 - t[1].wcost as i64;
                        if seen != refd.conn(*r as u16, *l as u16) {
                            ctx.violation("probe_sentence_shows_wrong_connection_cost", &format!("C07:probe:{name}"), format!("{name}: cost({r},{l}) read through total_cost is {seen}, defining value {}", refd.conn(*r as u16, *l as u16)), cj(format!("probe {s:?}")));
                            return;
                        }
                        ctx.bucket("cell_read_through_probe_sentence");
                    }
                    res.push(t);
                }
                Err(p) => {
                    ctx.violation("tokenize_panicked", &format!("C07:tokenize:{name}:{}", panic_class(&p)), p, cj(format!("probe {s:?}")));
                    return;
                }
            }
        }
        results.push((name, res));
    }
    for i in 1..results.len() {
        let proj = |v: &Vec<Vec<Tok>>| -> Vec<Vec<(String, i32)>> { v.iter().map(|t| t.iter().map(|x| (x.surface.clone(), x.total)).collect()).collect() };
        if proj(&results[0].1) != proj(&results[i].1) {
            ctx.violation("connector_kinds_tokenize_differently", "C07:connector_kinds_tokenize_differently", format!("{} vs {}", results[0].0, results[i].0), cj(String::new()));
            return;
        }
    }
    ctx.distinct(hash_bytes(cj(String::new()).to_string().as_bytes()));
    if ctx.want_sample() {
        ctx.sample(json!({"templates": k, "right_ids": nr, "left_ids": nl, "bigram.right": br, "bigram.cost_lines": bc.lines().count()}));
    }
}

/// Scorer level: key sets over a small universe; every probe incl. never-inserted keys,
/// the padding id and 0 must return exactly the inserted cost or nothing.
fn c07_scorer(ctx: &mut Ctx, rng: &mut Rng, tiny: bool) {
    const INVALID: u32 = 0x7fff_ffff;
    let exhaustive_sets = !tiny && ctx.index % 8 == 3;
    let universe: u32 = 5;
    let mut sets: Vec<Vec<(u32, u32, i32)>> = vec![];
    if exhaustive_sets {
        // all key sets of size <= 3 over the 5 x 5 universe handled by this shard, plus sampled sets of size 4
        let cells: Vec<(u32, u32)> = (0..universe).flat_map(|a| (0..universe).map(move |b| (a, b))).collect();
        let n = cells.len();
        let mut idx = 0u64;
        let mut push = |s: Vec<(u32, u32)>, idx: &mut u64| {
            if *idx % ctx.nshards == ctx.shard {
                sets.push(s.iter().enumerate().map(|(i, &(a, b))| (a, b, (i as i32 + 1) * 7 - 10)).collect());
            }
            *idx += 1;
        };
        push(vec![], &mut idx);
        for i in 0..n {
            push(vec![cells[i]], &mut idx);
            for j in i + 1..n {
                push(vec![cells[i], cells[j]], &mut idx);
                for k in j + 1..n {
                    push(vec![cells[i], cells[j], cells[k]], &mut idx);
                }
            }
        }
        if ctx.thorough() {
            // thorough: every key set of size 4 as well (12 650 sets)
            for i in 0..n {
                for j in i + 1..n {
                    for k in j + 1..n {
                        for l in k + 1..n {
                            push(vec![cells[i], cells[j], cells[k], cells[l]], &mut idx);
                        }
                    }
                }
            }
        } else {
            for _ in 0..400 {
                let mut s: Vec<(u32, u32)> = vec![];
                while s.len() < 4 {
                    let c = cells[rng.below(n)];
                    if !s.contains(&c) {
                        s.push(c);
                    }
                }
                push(s, &mut idx);
            }
        }
        ctx.bucket("scorer_small_scope_enumerated");
    } else {
        // random sets, some large and sparse (XOR double-array collisions)
        let nsets = if tiny { 2 } else { 20 };
        for _ in 0..nsets {
            let big = !tiny && rng.chance(0.3);
            let span: u32 = if big { 200 } else { 8 };
            let n = if big { 50 + rng.below(300) } else { rng.below(12) };
            let mut s: Vec<(u32, u32, i32)> = vec![];
            for _ in 0..n {
                let a = rng.below(span as usize) as u32;
                let b = rng.below(span as usize) as u32;
                if !s.iter().any(|x| x.0 == a && x.1 == b) {
                    s.push((a, b, rng.range(-1000, 1000) as i32));
                }
            }
            sets.push(s);
        }
        ctx.bucket("scorer_random_key_sets");
    }
    for set in &sets {
        let span = set.iter().map(|x| x.0.max(x.1)).max().unwrap_or(0) + 2;
        let lookup = |a: u32, b: u32| set.iter().find(|x| x.0 == a && x.1 == b).map(|x| x.2 as i64).unwrap_or(0);
        // single probes: all pairs of the universe (+ never-inserted key, 0, the padding id)
        let mut probe_keys: Vec<u32> = (0..span.min(universe + 1)).collect();
        probe_keys.push(INVALID);
        if span > universe + 1 {
            for _ in 0..6 {
                probe_keys.push(rng.below(span as usize) as u32);
            }
        }
        let mut pairs: Vec<(u32, u32)> = vec![];
        for &a in &probe_keys {
            for &b in &probe_keys {
                pairs.push((a, b));
            }
        }
        if tiny {
            rng.shuffle(&mut pairs);
            pairs.truncate(10);
        }
        // eight probes per call, one per lane; the sum must equal the sum of the eight lookups
        for chunk in pairs.chunks(8) {
            let k1: Vec<u32> = chunk.iter().map(|p| p.0).chain(std::iter::repeat(INVALID)).take(8).collect();
            let k2: Vec<u32> = chunk.iter().map(|p| p.1).chain(std::iter::repeat(INVALID)).take(8).collect();
            let want: i64 = chunk.iter().map(|p| lookup(p.0, p.1)).sum();
            ctx.eval();
            match guarded(|| vibrato::verif::scorer_eval(set, &k1, &k2)) {
                Ok(got) if got as i64 == want => {}
                Ok(got) => {
                    ctx.violation("scorer_lookup_wrong", "C07:scorer_lookup_wrong", format!("entries {:?}: probes {:?} gave {got}, expected {want}", set, chunk), json!({"entries": format!("{set:?}"), "probes": format!("{chunk:?}")}));
                    return;
                }
                Err(p) => {
                    ctx.violation("scorer_panicked", &format!("C07:scorer:{}", panic_class(&p)), p, json!({"entries": format!("{set:?}")}));
                    return;
                }
            }
        }
        // multi-vector rows (16 or 24 lanes)
        let lanes = if rng.chance(0.5) { 16 } else { 24 };
        let k1: Vec<u32> = (0..lanes).map(|_| if rng.chance(0.15) { INVALID } else { rng.below(span as usize) as u32 }).collect();
        let k2: Vec<u32> = (0..lanes).map(|_| if rng.chance(0.15) { INVALID } else { rng.below(span as usize) as u32 }).collect();
        let want: i64 = k1.iter().zip(&k2).map(|(&a, &b)| lookup(a, b)).sum();
        ctx.eval();
        if let Ok(got) = guarded(|| vibrato::verif::scorer_eval(set, &k1, &k2)) {
            if got as i64 != want {
                ctx.violation("scorer_accumulate_wrong", "C07:scorer_accumulate_wrong", format!("entries {:?}: rows {:?} x {:?} gave {got}, expected {want}", set, k1, k2), json!({"entries": format!("{set:?}")}));
                return;
            }
        }
        ctx.distinct(hash_bytes(format!("{set:?}").as_bytes()));
    }
    ctx.total("scorer_key_sets", sets.len() as u64);
    if ctx.want_sample() {
        if let Some(s) = sets.iter().find(|s| s.len() >= 3) {
            ctx.sample(json!({"scorer_entries(key1,key2,cost)": format!("{:?}", &s[..s.len().min(8)]), "probes": "all pairs over the key universe + never-inserted key + 0 + padding id, 8 per call"}));
        }
    }
}

// ---------------------------------------------------------------- C13

pub fn c13_case(ctx: &mut Ctx, rng: &mut Rng) {
    let ign = rng.chance(0.4);
    let cfg = GenCfg { clean_space: ign, max_ids: 6, ..Default::default() };
    // (with earlier id mappings, user lexicon before or after them, write/read: the dictionary that is counted and
    // re-mapped here may already carry a stored mapping and a user lexicon)
    let mut case = gen_tokcase(rng, &cfg, 12, true);
    if !ign && rng.chance(0.15) {
        // large id spaces with many frequency ties (one single-character word per id)
        let n = 34 + rng.below(40);
        let cells: Vec<i16> = (0..n * n).map(|_| rng.range(-20, 20) as i16).collect();
        let mut lex = vec![];
        for i in 1..n {
            lex.push(LexRow { surface: char::from_u32(0xE000 + i as u32).unwrap().to_string(), l: i as u16, r: (1 + (i * 7) % (n - 1)) as u16, cost: 0, feat: format!("W{i}") });
        }
        case.spec = DictSpec {
            cats: vec![Cat { name: "DEFAULT".into(), invoke: false, group: false, length: 1 }],
            def_order: vec![0],
            ranges: vec![],
            unk: vec![UnkRow { cat: 0, l: 0, r: 0, cost: 1000, feat: "U".into() }],
            lex,
            conn: Conn::Matrix { nr: n, nl: n, cells },
        };
        case.user = None;
        case.mapping = None;
        case.sentences = (0..12).map(|_| { let k = 1 + rng.below(2); (0..k).map(|_| char::from_u32(0xE000 + 1 + rng.below(n - 1) as u32).unwrap()).collect() }).collect();
        ctx.bucket("large_id_space_with_ties");
    }
    let has_space = case.spec.cat_index("SPACE").is_some();
    let o = Opts { ignore_space: ign && has_space && is_clean_space(&case.spec, case.user.as_deref()), mgl: case.opts[0].mgl };
    case.opts = vec![o];
    // history: sentences incl. empty lines, repeated lines, trailing spaces; sometimes no line at all
    let nhist = if rng.chance(0.05) { 0 } else { 1 + rng.below(14) };
    let mut hist: Vec<String> = vec![];
    for _ in 0..nhist {
        let mut s = match rng.below(6) {
            0 => String::new(),
            1 if !hist.is_empty() => hist[rng.below(hist.len())].clone(),
            _ => case.sentences[rng.below(case.sentences.len())].clone(),
        };
        if o.ignore_space && rng.chance(0.3) {
            s.push(' ');
        }
        hist.push(s);
    }
    if rng.chance(0.2) && !hist.is_empty() {
        hist[0] = String::new(); // empty first line
    }
    let (dict, spec, user) = match prepare(&case) {
        Prep::Ready { dict, spec, user } => (dict, spec, user),
        _ => {
            ctx.bucket("dict_rejected");
            return;
        }
    };
    ctx.bucket("dict_accepted");
    let refd = RefDict::new(&spec, user.as_deref());
    let (nr, nl) = refd.dims();
    let cj = |extra: String| json!({"files": case.texts(), "opts": o, "history": hist, "detail": extra});
    // reference recount; histories whose sentences cannot be analysed (uncovered category) are skipped
    let mut want_l = vec![0u64; nl];
    let mut want_r = vec![0u64; nr];
    for s in &hist {
        let chars: Vec<char> = s.chars().collect();
        if chars.is_empty() {
            continue;
        }
        let rout = refd.analyze(&chars, o);
        if rout.total.is_none() {
            ctx.bucket("history_with_disconnected_sentence_skipped");
            return;
        }
        for i in 0..nl {
            want_l[i] += rout.conn_left[i];
        }
        for i in 0..nr {
            want_r[i] += rout.conn_right[i];
        }
    }
    let tok = match make_tokenizer(dict, o) {
        Ok(t) => t,
        Err(_) => return,
    };
    let mut w = tok.new_worker();
    w.init_connid_counter();
    vibrato::verif::take_events();
    vibrato::verif::set_event_detail(true);
    let mut ev_l = vec![0u64; nl];
    let mut ev_r = vec![0u64; nr];
    for (k, s) in hist.iter().enumerate() {
        ctx.eval();
        let r = guarded(|| {
            w.reset_sentence(s);
            w.tokenize();
            w.update_connid_counts();
        });
        if let Err(p) = r {
            vibrato::verif::set_event_detail(false);
            ctx.violation("counting_panicked", &format!("C13:counting:{}", panic_class(&p)), format!("line {k} {:?}: {p}", s), cj(String::new()));
            return;
        }
        let (_, evs) = vibrato::verif::take_events();
        for e in evs {
            if let vibrato::verif::Event::CostEval { right_id, left_id, .. } = e {
                ev_l[left_id as usize] += 1;
                ev_r[right_id as usize] += 1;
            }
        }
    }
    vibrato::verif::set_event_detail(false);
    let (lp, rp) = match guarded(|| w.compute_connid_probs()) {
        Ok(x) => x,
        Err(p) => {
            ctx.violation("compute_probs_panicked", &format!("C13:probs:{}", panic_class(&p)), p, cj(String::new()));
            return;
        }
    };
    if ev_l != want_l || ev_r != want_r {
        // evidence only: an implementation may cache or prune evaluations
        ctx.bucket("instrumentation_drift_events_vs_recount");
    } else {
        ctx.bucket("cost_eval_events_equal_recount");
    }
    for (side, probs, want, n) in [("left", &lp, &want_l, nl), ("right", &rp, &want_r, nr)] {
        let ids: Vec<usize> = probs.iter().map(|x| x.0).collect();
        let mut sorted = ids.clone();
        sorted.sort();
        if sorted != (1..n).collect::<Vec<_>>() {
            ctx.violation("statistics_not_a_permutation", "C13:statistics_not_a_permutation", format!("{side} ids listed: {:?}, expected every id of 1..{n} exactly once", ids), cj(String::new()));
            return;
        }
        let mut expect: Vec<usize> = (1..n).collect();
        expect.sort_by(|&a, &b| want[b].cmp(&want[a]).then(a.cmp(&b)));
        if ids != expect {
            ctx.violation("statistics_wrong_order", "C13:statistics_wrong_order", format!("{side}: order {:?} but by (frequency desc, id asc) it is {:?}; reference frequencies {:?}", ids, expect, want), cj(String::new()));
            return;
        }
        let total: u64 = want.iter().sum();
        for &(id, p) in probs.iter() {
            let q = want[id] as f64 / total as f64;
            if !(p == q || (p.is_nan() && q.is_nan())) {
                ctx.violation("probability_not_count_over_total", "C13:probability_not_count_over_total", format!("{side} id {id}: probability {p} but count/total = {}/{} = {q}", want[id], total), cj(String::new()));
                return;
            }
        }
        if want[1..].windows(2).any(|p| p[0] == p[1]) {
            ctx.bucket("frequency_ties");
        }
    }
    if hist.iter().any(|s| s.is_empty()) {
        ctx.bucket("empty_line_in_history");
    }
    if hist.first().map_or(false, |s| s.is_empty()) {
        ctx.bucket("empty_first_line");
    }
    if hist.is_empty() {
        ctx.bucket("no_line_at_all");
    }
    if o.ignore_space && hist.iter().any(|s| s.ends_with(' ') && s.trim().len() > 0) {
        ctx.bucket("trailing_spaces_with_ignore_space");
    }
    {
        let mut seen = std::collections::HashSet::new();
        if hist.iter().any(|s| !s.is_empty() && !seen.insert(s)) {
            ctx.bucket("repeated_line");
        }
    }
    // pipeline: the listed order is accepted by map, and the mapped dictionary tokenizes identically
    let lmap: Vec<u16> = lp.iter().map(|x| x.0 as u16).collect();
    let rmap: Vec<u16> = rp.iter().map(|x| x.0 as u16).collect();
    drop(w);
    let (bytes, _) = match write_dict(tok.dictionary()) {
        Ok(x) => x,
        Err(_) => return,
    };
    let d2 = match read_dict(&bytes) {
        Ok(Ok(d)) => d,
        _ => return,
    };
    ctx.eval();
    let (l2, r2) = (lmap.clone(), rmap.clone());
    let mapped = match guarded(move || d2.map_connection_ids_from_iter(l2, r2).map_err(|e| e.to_string())) {
        Ok(Ok(d)) => d,
        Ok(Err(e)) => {
            ctx.violation("reorder_output_rejected_by_map", "C13:reorder_output_rejected_by_map", format!("lmap {:?} rmap {:?}: {e}", lmap, rmap), cj(String::new()));
            return;
        }
        Err(p) => {
            ctx.violation("map_panicked_on_reorder_output", &format!("C13:map:{}", panic_class(&p)), p, cj(String::new()));
            return;
        }
    };
    let tm = match make_tokenizer(mapped, o) {
        Ok(t) => t,
        Err(_) => return,
    };
    let mut w0 = tok.new_worker();
    let mut w1 = tm.new_worker();
    for s in &case.sentences {
        let (a, b) = match (tokenize(&mut w0, s), tokenize(&mut w1, s)) {
            (Ok(a), Ok(b)) => (a, b),
            (Err(_), Err(_)) => {
                w0 = tok.new_worker();
                w1 = tm.new_worker();
                continue;
            }
            _ => {
                ctx.violation("mapped_dictionary_fails_differently", "C13:mapped_dictionary_fails_differently", format!("sentence {s:?}"), cj(String::new()));
                return;
            }
        };
        ctx.eval();
        let ca = a.last().map(|t| t.total);
        let cb = b.last().map(|t| t.total);
        let sa: String = a.iter().map(|t| t.surface.as_str()).collect();
        let sb: String = b.iter().map(|t| t.surface.as_str()).collect();
        let chars: Vec<char> = s.chars().collect();
        let unique = refd.analyze(&chars, o).n_opt == 1;
        let pa: Vec<_> = a.iter().map(|t| (t.surface.clone(), t.feat.clone(), t.total)).collect();
        let pb: Vec<_> = b.iter().map(|t| (t.surface.clone(), t.feat.clone(), t.total)).collect();
        if ca != cb || sa != sb || (unique && pa != pb) {
            ctx.violation("dictionary_mapped_by_reorder_output_tokenizes_differently", "C13:mapped_tokenizes_differently", format!("{:?} vs {:?}", toks_brief(&a), toks_brief(&b)), cj(format!("sentence {s:?}")));
            return;
        }
    }
    ctx.bucket("reorder_output_accepted_by_map");
    if hist.iter().filter(|s| !s.is_empty()).count() >= 1 {
        ctx.distinct(hash_bytes(cj(String::new()).to_string().as_bytes()));
    }
    if ctx.want_sample() && hist.len() >= 3 {
        ctx.sample(json!({"history": hist, "opts": o, "left_order": lmap, "right_order": rmap, "reference_left_counts": want_l, "reference_right_counts": want_r}));
    }
}

/// Deterministic witnesses for defects repaired by `fix:` commits (C07): they must stay repaired.
pub fn c07_witnesses(ctx: &mut Ctx) {
    // connection id 65535 with the raw connector (index arithmetic in u16 used to overflow)
    let mut right = String::new();
    for i in 1..=65535u32 {
        right += &format!("{i}\t{}\n", if i == 65535 { "x" } else { "z" });
    }
    let conn = ConnTexts::Bigram { right: right.into_bytes(), left: b"1\ty\n".to_vec(), cost: b"x/y\t5\nz/y\t-3\n".to_vec(), dual: false };
    ctx.eval();
    let case = json!({"bigram.right": "65535 lines `i<TAB>z`, the last one `65535<TAB>x`", "bigram.left": "1\ty", "bigram.cost": "x/y\t5\nz/y\t-3", "lex.csv": "a,1,65535,0,A"});
    match build_from_texts(b"a,1,65535,0,A\n", b"DEFAULT 0 1 0\n", b"DEFAULT,0,0,100,U\n", &conn) {
        BuildOutcome::Ok(d) => match guarded(|| (vibrato::verif::conn_cost(&d, 65535, 1), vibrato::verif::conn_cost(&d, 65534, 1), vibrato::verif::conn_cost(&d, 65535, 0))) {
            Ok((5, -3, 0)) => ctx.bucket("witness_raw_connector_id_65535_ok"),
            Ok(v) => ctx.violation("raw_connector_differs_from_defining_sum", "C07:witness:id-65535", format!("costs (65535,1), (65534,1), (65535,0) = {:?}, expected (5, -3, 0)", v), case),
            Err(p) => ctx.violation("raw_connector_lookup_panicked", "C07:witness:id-65535", p, case),
        },
        BuildOutcome::Err(e) => ctx.note(format!("C07 witness id 65535: builder rejected: {e}")),
        BuildOutcome::Panic(p) => ctx.violation("raw_connector_build_panicked", "C07:witness:id-65535", p, case),
    }
    // dual connector whose pre-summed (matrix) part is exactly the lowest 16-bit value: 16 template positions
    // of -4096 each; whichever 8 of them the split pre-sums, that part is -32768 and the whole cost -65536
    let feats = |t: &str| (0..16).map(|i| format!("{t}{i}")).collect::<Vec<_>>().join(",");
    let mut cost = String::new();
    for i in 0..16 {
        cost += &format!("r{i}/l{i}\t-4096\n");
    }
    let conn = ConnTexts::Bigram { right: format!("1\t{}\n", feats("r")).into_bytes(), left: format!("1\t{}\n", feats("l")).into_bytes(), cost: cost.into_bytes(), dual: true };
    ctx.eval();
    let case = json!({"bigram.right": "1\tr0,...,r15", "bigram.left": "1\tl0,...,l15", "bigram.cost": "r<i>/l<i>\t-4096 for i = 0..15", "dual": true});
    match build_from_texts(b"a,1,1,0,A\n", b"DEFAULT 0 1 0\n", b"DEFAULT,0,0,100,U\n", &conn) {
        BuildOutcome::Ok(d) => match guarded(|| (vibrato::verif::conn_cost(&d, 1, 1), vibrato::verif::conn_cost(&d, 0, 1), vibrato::verif::conn_cost(&d, 1, 0))) {
            Ok((-65536, 0, 0)) => ctx.bucket("witness_dual_presum_exactly_i16_min_ok"),
            Ok(v) => ctx.violation("dual_connector_differs_from_defining_sum", "C07:witness:dual-presum-i16-min", format!("costs (1,1), (0,1), (1,0) = {:?}, expected (-65536, 0, 0)", v), case),
            Err(p) => ctx.violation("dual_connector_lookup_panicked", "C07:witness:dual-presum-i16-min", p, case),
        },
        BuildOutcome::Err(e) => ctx.note(format!("C07 witness dual presum: builder rejected: {e}")),
        BuildOutcome::Panic(p) => ctx.violation("dual_connector_build_panicked", "C07:witness:dual-presum-i16-min", p, case),
    }
}
