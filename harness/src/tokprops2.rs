//! C04 (history/thread independence), C06 (id remapping), C08 (user lexicon), C12 (re-spacing).
use crate::gen::*;
use crate::model::*;
use crate::oracles::*;
use crate::real::*;
use crate::report::Ctx;
use crate::rng::{hash_bytes, Rng};
use crate::tokprops::*;
use serde_json::json;
use std::sync::atomic::{AtomicU64, Ordering};
use vibrato::dictionary::Dictionary;
use vibrato::Tokenizer;

fn assert_send_sync<T: Send + Sync>() {}

// ---------------------------------------------------------------- C04

#[derive(Clone, Debug)]
enum Op {
    Reset(usize),
    Tokenize,
    /// read the result list without tokenizing (also right after reset_sentence)
    Read,
    InitCounter,
    UpdateCounts,
}

pub fn c04_case(ctx: &mut Ctx, rng: &mut Rng, stage: &str) {
    // compile-time part of the property: the tokenizer can be shared across threads
    assert_send_sync::<Tokenizer>();
    assert_send_sync::<Dictionary>();
    let miri = stage == "miri";
    let cfg = if miri { GenCfg { max_cats: 2, max_lex: 4, max_ids: 2, conn_kind: 0, ..Default::default() } } else { GenCfg::default() };
    let mut case = gen_tokcase(rng, &cfg, 6, !miri);
    case.opts.truncate(1);
    if !miri && rng.chance(0.08) && widen_right_ids(rng, &mut case.spec, case.user.as_mut()) {
        case.mapping = None;
        ctx.bucket("more_than_4096_right_ids");
    }
    // few distinct sentences: empty, one char, long, shorter-after-longer, all spaces
    case.sentences[0] = String::new();
    if case.sentences.len() > 2 {
        case.sentences[1] = ALPHA[rng.below(ALPHA.len())].to_string();
        let base = case.sentences[2].clone();
        case.sentences[2] = format!("{base}{base}{base}");
        if case.opts[0].ignore_space {
            case.sentences[3] = "  \u{3000} ".to_string();
        }
        // a sentence that begins with U+FEFF (a character like any other, for a fresh and for a reused worker)
        if case.sentences.len() > 3 && !case.opts[0].ignore_space {
            case.sentences[3] = format!("{}{}", '\u{FEFF}', case.sentences[2].chars().take(6).collect::<String>());
        }
        // two different sentences with the same number of characters
        if case.sentences.len() > 5 {
            let rev: String = case.sentences[5].chars().rev().collect();
            if rev != case.sentences[5] {
                case.sentences[4] = rev;
                ctx.bucket("two_sentences_of_equal_length");
            }
        }
    }
    let prep = prepare(&case);
    let dict = match prep {
        Prep::Ready { dict, .. } => dict,
        _ => {
            ctx.bucket("dict_rejected");
            return;
        }
    };
    ctx.bucket("dict_accepted");
    let o = case.opts[0];
    // the tokenizer under test gets its options through a history of setter calls (half of the cases) ...
    let tok = match make_tokenizer_hist(dict, o, case.spec.cat_index("SPACE").is_some()) {
        Ok(t) => t,
        Err(_) => return,
    };
    // ... the model is a fresh worker, given only the sentence, of a second tokenizer built from the same files
    // whose options were set once
    // (under Miri a second dictionary build costs minutes: there the model is a fresh worker of the same tokenizer)
    let plain = if miri {
        None
    } else {
        match prepare(&case) {
            Prep::Ready { dict, .. } => match guarded(move || Tokenizer::new(dict).ignore_space(o.ignore_space).map(|t| t.max_grouping_len(o.mgl)).map_err(|e| e.to_string())) {
                Ok(Ok(t)) => Some(t),
                _ => return,
            },
            _ => return,
        }
    };
    let mut expected: Vec<Option<Vec<Tok>>> = vec![];
    for s in &case.sentences {
        let mut w = plain.as_ref().unwrap_or(&tok).new_worker();
        expected.push(tokenize(&mut w, s).ok());
    }
    if expected.iter().any(|e| e.is_none()) {
        ctx.bucket("fresh_worker_panicked_case_skipped");
        return;
    }
    let expected: Vec<Vec<Tok>> = expected.into_iter().map(|e| e.unwrap()).collect();
    drop(plain);
    for (i, s) in case.sentences.iter().enumerate() {
        let mut w = tok.new_worker();
        ctx.eval();
        match tokenize(&mut w, s) {
            Ok(t) if t == expected[i] => {}
            other => {
                ctx.violation("same_options_different_result", "C04:same_options_different_result", format!("two tokenizers of the same dictionary whose options ended up equal (one through a history of setter calls) differ on {:?}: {:?} vs {:?}", s, other.map(|t| toks_brief(&t)), toks_brief(&expected[i])), json!({"files": case.texts(), "opts": o, "sentences": case.sentences}));
                return;
            }
        }
    }
    // a worker created after another worker of the same tokenizer was used and dropped is as fresh as the first
    {
        let longest = case.sentences.iter().max_by_key(|s| s.len()).cloned().unwrap_or_default();
        let mut w1 = tok.new_worker();
        let _ = tokenize(&mut w1, &longest);
        drop(w1);
        let mut w2 = tok.new_worker();
        ctx.eval();
        let r = guarded(|| {
            let before = read_tokens(&w2);
            w2.tokenize();
            (before, read_tokens(&w2))
        });
        match r {
            Ok((a, b)) if a.is_empty() && b.is_empty() => ctx.bucket("new_worker_after_dropped_worker_is_fresh"),
            Ok((a, b)) => {
                ctx.violation("new_worker_is_not_fresh", "C04:new_worker_is_not_fresh", format!("after another worker tokenized {:?} and was dropped, a new worker shows {:?} before and {:?} after tokenize() without reset_sentence (a fresh worker holds the empty sentence: no tokens)", longest, toks_brief(&a), toks_brief(&b)), json!({"files": case.texts(), "opts": o}));
                return;
            }
            Err(p) => {
                ctx.violation("new_worker_is_not_fresh", &format!("C04:new_worker:{}", panic_class(&p)), p, json!({"files": case.texts(), "opts": o}));
                return;
            }
        }
    }
    if stage != "tsan" && stage != "miri" {
        c04_history(ctx, rng, &case, &tok, &expected, o);
    }
    let nthreads = if miri { 2 } else { 2 + rng.below(if ctx.thorough() { 15 } else { 7 }) };
    // most workloads are short (many dictionaries); now and then a long one, so that workers of one tokenizer
    // really run side by side for a while (state shared through the dictionary would show up here)
    let long = !miri && stage != "tsan" && rng.chance(0.12);
    if long {
        ctx.bucket("long_thread_workload");
    }
    c04_threads(ctx, rng, &case, &tok, &expected, o, if long { 8 } else { nthreads }, if miri { 3 } else if long { 1500 } else { 24 });
}

fn c04_history(ctx: &mut Ctx, rng: &mut Rng, case: &TokCase, tok: &Tokenizer, expected: &[Vec<Tok>], o: Opts) {
    let len = 4 + rng.below(36);
    let mut ops: Vec<Op> = vec![];
    let mut has_counter = false;
    let mut tokenized_since_reset = false;
    let mut ever_tokenized = false;
    for _ in 0..len {
        let op = match rng.below(12) {
            0..=3 => Op::Reset(rng.below(case.sentences.len())),
            4..=7 => Op::Tokenize,
            8 => Op::InitCounter,
            9 | 10 => Op::Read,
            _ => Op::UpdateCounts,
        };
        match op {
            Op::Reset(_) => {
                tokenized_since_reset = false;
                ops.push(op)
            }
            Op::Tokenize => {
                if ops.iter().any(|o| matches!(o, Op::Reset(_))) {
                    tokenized_since_reset = true;
                    ever_tokenized = true;
                    ops.push(op)
                }
            }
            Op::InitCounter => {
                has_counter = true;
                ops.push(op)
            }
            Op::Read => {
                if ops.iter().any(|o| matches!(o, Op::Reset(_))) {
                    ops.push(op)
                }
            }
            Op::UpdateCounts => {
                if has_counter && tokenized_since_reset && ever_tokenized {
                    ops.push(op)
                }
            }
        }
    }
    let mut w = tok.new_worker();
    let mut cur: Option<usize> = None;
    let mut prev_len = 0usize;
    let mut ntok_calls_since_reset = 0;
    let hist: Vec<String> = ops.iter().map(|o| format!("{o:?}")).collect();
    for (k, op) in ops.iter().enumerate() {
        let r = guarded(|| match op {
            Op::Reset(i) => {
                w.reset_sentence(&case.sentences[*i]);
                None
            }
            Op::Tokenize => {
                w.tokenize();
                Some(read_tokens(&w))
            }
            Op::Read => Some(read_tokens(&w)),
            Op::InitCounter => {
                w.init_connid_counter();
                None
            }
            Op::UpdateCounts => {
                w.update_connid_counts();
                None
            }
        });
        let brief = || json!({"files": case.texts(), "opts": o, "sentences": case.sentences, "history": hist, "failing_step": k});
        match r {
            Err(p) => {
                ctx.violation("history_op_panicked", &format!("C04:history:{}", panic_class(&p)), format!("step {k} {op:?}: {p}"), brief());
                return;
            }
            Ok(Some(toks)) if matches!(op, Op::Read) && ntok_calls_since_reset == 0 => {
                // read between reset_sentence and tokenize: a fresh worker given the same two calls
                ctx.eval();
                let i = cur.unwrap();
                let mut fresh = tok.new_worker();
                let model = guarded(|| {
                    fresh.reset_sentence(&case.sentences[i]);
                    read_tokens(&fresh)
                })
                .unwrap_or_default();
                if toks != model {
                    ctx.violation("read_after_reset_differs_from_fresh_worker", "C04:read_after_reset_differs_from_fresh_worker", format!("step {k}: after reset_sentence({:?}) and before tokenize this worker shows {:?}, a fresh worker {:?}", case.sentences[i], toks_brief(&toks), toks_brief(&model)), brief());
                    return;
                }
                ctx.bucket("read_between_reset_and_tokenize");
            }
            Ok(Some(toks)) => {
                ctx.eval();
                if matches!(op, Op::Tokenize) {
                    ntok_calls_since_reset += 1;
                }
                let i = cur.unwrap();
                if toks != expected[i] {
                    let what = if ntok_calls_since_reset > 1 { "repeated_tokenize_differs" } else { "reused_worker_differs_from_fresh" };
                    ctx.violation(what, &format!("C04:{what}"), format!("step {k}: sentence {:?}: worker with this history returned {:?}, a fresh worker {:?}", case.sentences[i], toks_brief(&toks), toks_brief(&expected[i])), brief());
                    return;
                }
                if ntok_calls_since_reset > 1 {
                    ctx.bucket("tokenize_repeated");
                }
                let n = case.sentences[i].chars().count();
                if n < prev_len {
                    ctx.bucket("shorter_after_longer");
                }
                if n == 0 {
                    ctx.bucket("empty_sentence_in_history");
                } else if prev_len == 0 && k > 2 {
                    ctx.bucket("non_empty_after_empty");
                }
                prev_len = n;
            }
            Ok(None) => {
                if let Op::Reset(i) = op {
                    cur = Some(*i);
                    ntok_calls_since_reset = 0;
                }
                if let Op::UpdateCounts = op {
                    ctx.bucket("update_counts_in_history");
                }
            }
        }
    }
    let mut b = serde_json::to_vec(&case.spec).unwrap();
    b.extend(hist.join(";").as_bytes());
    b.extend(case.sentences.join("\u{1}").as_bytes());
    ctx.distinct(hash_bytes(&b));
    if ctx.want_sample() {
        ctx.sample(json!({"sentences": case.sentences, "history": hist, "opts": o}));
    }
}

fn c04_threads(ctx: &mut Ctx, rng: &mut Rng, case: &TokCase, tok: &Tokenizer, expected: &[Vec<Tok>], o: Opts, nthreads: usize, per_thread: usize) {
    let ticket = AtomicU64::new(0);
    let plans: Vec<(u64, Vec<usize>)> = (0..nthreads).map(|_| (rng.next() | 1, (0..per_thread).map(|_| rng.below(case.sentences.len())).collect())).collect();
    let results: Vec<(Vec<(usize, Result<Vec<Tok>, String>)>, Vec<(u64, u64)>)> = std::thread::scope(|sc| {
        let handles: Vec<_> = plans
            .iter()
            .map(|(yseed, plan)| {
                let ticket = &ticket;
                let sentences = &case.sentences;
                sc.spawn(move || {
                    crate::real::install_thread_panic_state();
                    vibrato::verif::set_yield_seed(*yseed);
                    let mut w = tok.new_worker();
                    let mut out = vec![];
                    let mut spans = vec![];
                    for &i in plan {
                        let t0 = ticket.fetch_add(1, Ordering::SeqCst);
                        let r = tokenize(&mut w, &sentences[i]);
                        let t1 = ticket.fetch_add(1, Ordering::SeqCst);
                        spans.push((t0, t1));
                        if r.is_err() {
                            w = tok.new_worker();
                        }
                        out.push((i, r));
                    }
                    vibrato::verif::set_yield_seed(0);
                    (out, spans)
                })
            })
            .collect();
        handles.into_iter().map(|h| h.join().unwrap()).collect()
    });
    let mut overlaps = 0u64;
    for (tid, (out, spans)) in results.iter().enumerate() {
        for (k, (i, r)) in out.iter().enumerate() {
            ctx.eval();
            let brief = || json!({"files": case.texts(), "opts": o, "sentences": case.sentences, "threads": nthreads, "thread": tid, "step": k});
            match r {
                Err(p) => ctx.violation("concurrent_tokenize_panicked", &format!("C04:threads:{}", panic_class(p)), p.clone(), brief()),
                Ok(toks) => {
                    if toks != &expected[*i] {
                        ctx.violation("concurrent_worker_differs_from_sequential", "C04:concurrent_worker_differs_from_sequential", format!("thread {tid} step {k} sentence {:?}: {:?} vs sequential {:?}", case.sentences[*i], toks_brief(toks), toks_brief(&expected[*i])), brief());
                    }
                }
            }
            // another thread took a ticket between this operation's tickets => the operations overlapped
            if spans[k].1 - spans[k].0 > 1 {
                overlaps += 1;
            }
        }
    }
    ctx.total("overlapping_tokenize_calls", overlaps);
    ctx.total("thread_workloads", 1);
    if overlaps > 0 {
        ctx.bucket("threads_overlapped");
        let pattern: Vec<u64> = results.iter().flat_map(|(_, sp)| sp.iter().map(|s| s.1 - s.0)).collect();
        ctx.distinct(hash_bytes(format!("{:?}{:?}", pattern, case.sentences).as_bytes()));
    }
}

// ---------------------------------------------------------------- C12

fn respace(rng: &mut Rng, s: &str, spaces: &[char]) -> String {
    // rewrite every space run to another non-zero length/composition; add/remove leading/trailing runs
    let is_sp = |c: char| spaces.contains(&c);
    let chars: Vec<char> = s.chars().collect();
    let mut out = String::new();
    let run = |rng: &mut Rng| -> String { (0..1 + rng.below(4)).map(|_| if rng.chance(0.5) { ' ' } else { *rng.pick(spaces) }).collect() };
    let mut i = 0;
    let n = chars.len();
    // strip leading/trailing runs, re-add at random
    let mut lo = 0;
    while lo < n && is_sp(chars[lo]) {
        lo += 1;
    }
    let mut hi = n;
    while hi > lo && is_sp(chars[hi - 1]) {
        hi -= 1;
    }
    if rng.chance(0.5) {
        out += &run(rng);
    }
    i += lo;
    while i < hi {
        if is_sp(chars[i]) {
            while i < hi && is_sp(chars[i]) {
                i += 1;
            }
            out += &run(rng);
        } else {
            out.push(chars[i]);
            i += 1;
        }
    }
    if rng.chance(0.5) {
        out += &run(rng);
    }
    out
}

fn sig(t: &Tok) -> (String, String, i16, u16, u16, i32, u8) {
    (t.surface.clone(), t.feat.clone(), t.wcost, t.l, t.r, t.total, t.lex)
}

pub fn c12_case(ctx: &mut Ctx, rng: &mut Rng) {
    // SPACE undefined => ignore_space must be rejected with an error
    if rng.chance(0.05) {
        // only DEFAULT - or several categories of which the one that would be SPACE has a look-alike name
        let lookalike = rng.chance(0.5);
        let cfg = GenCfg { max_cats: if lookalike { 4 } else { 1 }, ..Default::default() };
        let mut spec = gen_dict(rng, &cfg);
        if let Some(i) = spec.cat_index("SPACE") {
            spec.cats[i].name = ["Space", "space", "SPACES", "XSPACE", "SPACE_"][rng.below(5)].to_string();
            ctx.bucket("category_with_a_name_resembling_SPACE");
        }
        if spec.cat_index("SPACE").is_none() {
            if let BuildOutcome::Ok(d) = build_spec(&spec) {
                ctx.eval();
                match guarded(move || Tokenizer::new(d).ignore_space(true).is_err()) {
                    Ok(true) => ctx.bucket("ignore_space_rejected_without_SPACE"),
                    Ok(false) => ctx.violation("ignore_space_accepted_without_SPACE", "C12:ignore_space_accepted_without_SPACE", "char.def defines no SPACE category but ignore_space(true) returned Ok".into(), json!({"char.def": spec.char_def()})),
                    Err(p) => ctx.violation("ignore_space_panicked", "C12:ignore_space_panicked", p, json!({"char.def": spec.char_def()})),
                }
            }
        }
        return;
    }
    let mut cfg = GenCfg { clean_space: true, ..Default::default() };
    cfg.max_cats = 6;
    let mut case = gen_tokcase(rng, &cfg, 10, true);
    if case.spec.cat_index("SPACE").is_some() && rng.chance(0.3) {
        // SPACE is whatever char.def says it is: give it a character that is not Unicode whitespace as well
        // (its line comes last, so it belongs to SPACE alone), and keep it out of the lexicon surfaces
        let e = ['Z', '-', '.', '2', '\u{FFFF}', '\u{FFFF}'][rng.below(6)];
        let keep = |r: &LexRow| !r.surface.contains(e);
        if case.spec.lex.iter().any(keep) {
            case.spec.lex.retain(keep);
            if let Some(u) = case.user.as_mut() {
                u.retain(keep);
            }
            if case.user.as_ref().map_or(false, |u| u.is_empty()) {
                case.user = None;
            }
            case.spec.ranges.push(Range { lo: e as u32, hi: e as u32, cats: vec![1] });
        }
    }
    let spaces = match clean_space_set(&case.spec, case.user.as_deref()) {
        Some(s) => s,
        None => {
            ctx.bucket("precondition_not_met_skipped");
            return;
        }
    };
    if spaces.iter().any(|c| !c.is_whitespace()) {
        ctx.bucket("space_category_with_non_whitespace_character");
    }
    let o = Opts { ignore_space: true, mgl: case.opts[0].mgl };
    case.opts = vec![o];
    // sentences with space runs in all three positions; and sentences whose only space characters are not
    // Unicode whitespace
    for s in case.sentences.iter_mut() {
        if rng.chance(0.6) {
            let only_odd = rng.chance(0.3);
            let chars: Vec<char> = s.chars().filter(|c| !(only_odd && c.is_whitespace())).collect();
            let mut t = String::new();
            for c in chars {
                t.push(c);
                if rng.chance(0.3) {
                    let sp = *rng.pick(&spaces);
                    t.push(if only_odd && sp.is_whitespace() { *spaces.last().unwrap() } else { sp });
                }
            }
            *s = t;
        }
    }
    case.sentences.push("   ".into());
    case.sentences.push("\u{3000} ".into());
    if rng.chance(0.004) {
        // a run longer than 65535 characters
        let w = case.sentences[0].trim().to_string();
        let run: String = std::iter::repeat(' ').take(65_536 + rng.below(50)).collect();
        case.sentences.push(format!("{w}{run}{w}"));
        case.sentences.push(run);
        ctx.bucket("space_run_longer_than_65535");
    }
    let prep = prepare(&case);
    let (dict, spec, user) = match prep {
        Prep::Ready { dict, spec, user } => (dict, spec, user),
        _ => {
            ctx.bucket("dict_rejected");
            return;
        }
    };
    ctx.bucket("dict_accepted");
    ctx.bucket(&format!("connector_{}", case.spec.conn.kind()));
    let refd = RefDict::new(&spec, user.as_deref());
    let tok = match make_tokenizer_hist(dict, o, spec.cat_index("SPACE").is_some()) {
        Ok(t) => t,
        Err(e) => {
            ctx.violation("ignore_space_rejected_with_SPACE_defined", "C12:make_tokenizer", e, case.brief("", o));
            return;
        }
    };
    let mut w = tok.new_worker();
    let is_sp = |c: char| spaces.contains(&c);
    for s in &case.sentences {
        let base = match tokenize(&mut w, s) {
            Ok(t) => t,
            Err(p) => {
                ctx.violation("tokenize_panicked", &format!("C12:tokenize:{}", panic_class(&p)), p, case.brief(s, o));
                w = tok.new_worker();
                continue;
            }
        };
        ctx.eval();
        let chars: Vec<char> = s.chars().collect();
        let rout = refd.analyze(&chars, o);
        if chars.iter().all(|&c| is_sp(c)) {
            if !base.is_empty() {
                ctx.violation("spaces_only_sentence_yields_tokens", "C12:spaces_only_sentence_yields_tokens", format!("{:?}", toks_brief(&base)), case.brief(s, o));
            }
            if !chars.is_empty() {
                ctx.bucket("spaces_only_sentence");
            }
            continue;
        }
        if let Some(t) = base.iter().find(|t| t.surface.chars().any(is_sp)) {
            ctx.violation("token_contains_space", "C12:token_contains_space", format!("token {:?}", t.surface), case.brief(s, o));
            continue;
        }
        // agreement with the reference (skip rule)
        if let Err((check, detail)) = check_membership(&rout, &base).and_then(|_| check_blackbox_opt(&refd, &rout, &base, chars.len())) {
            ctx.violation(&check, &format!("C12:{check}"), detail + &format!(" | tokens {:?}", toks_brief(&base)), case.brief(s, o));
            continue;
        }
        let dump = vibrato::verif::dump_lattice(&w);
        if let Err((check, detail)) = check_candidates(&rout, &dump, tok.dictionary(), false) {
            ctx.violation(&check, &format!("C12:{check}"), detail, case.brief(s, o));
            continue;
        }
        let mut nvar = 0;
        for _ in 0..8 {
            let v = respace(rng, s, &spaces);
            if v == *s {
                continue;
            }
            let var = match tokenize(&mut w, &v) {
                Ok(t) => t,
                Err(p) => {
                    ctx.violation("tokenize_panicked", &format!("C12:tokenize:{}", panic_class(&p)), p, case.brief(&v, o));
                    w = tok.new_worker();
                    continue;
                }
            };
            ctx.eval();
            nvar += 1;
            let a: Vec<_> = base.iter().map(sig).collect();
            let b: Vec<_> = var.iter().map(sig).collect();
            if a != b {
                if rout.n_opt == 1 {
                    ctx.violation("respaced_variant_tokenizes_differently", "C12:respaced_variant_tokenizes_differently", format!("{:?} -> {:?}\n but {:?} -> {:?}", s, toks_brief(&base), v, toks_brief(&var)), case.brief(s, o));
                    break;
                }
                // several optimal paths: only the optimal cost must agree
                let ca = path_cost(&refd, &base);
                let cb = path_cost(&refd, &var);
                match (ca, cb) {
                    (Ok(x), Ok(y)) if x == y => ctx.bucket("tie_divergence_between_variants"),
                    _ => {
                        ctx.violation("respaced_variant_has_different_cost", "C12:respaced_variant_has_different_cost", format!("{:?} -> {:?}\n but {:?} -> {:?}", s, toks_brief(&base), v, toks_brief(&var)), case.brief(s, o));
                        break;
                    }
                }
            }
        }
        if nvar > 0 && base.len() >= 1 && s.chars().any(is_sp) {
            ctx.distinct(hash_bytes(format!("{}{:?}", serde_json::to_string(&case.spec).unwrap(), s).as_bytes()));
            if base.windows(2).any(|p| p[0].ce < p[1].cs) {
                ctx.bucket("inner_space_run");
            }
            if base[0].cs > 0 {
                ctx.bucket("leading_space_run");
            }
            if base.last().unwrap().ce < chars.len() {
                ctx.bucket("trailing_space_run");
            }
            if base.iter().any(|t| t.lex == 2 && t.ce - t.cs > 1) {
                ctx.bucket("grouped_unknown_word_next_to_space");
            }
            if ctx.want_sample() {
                ctx.sample(json!({"sentence": s, "tokens": toks_brief(&base), "variants_compared": nvar, "optimal_paths": rout.n_opt}));
            }
        }
    }
}

// ---------------------------------------------------------------- C06

/// A connector with 65536 right ids (65535 rows in bigram.right, which the raw connector supports): a valid
/// mapping must be accepted, and the new id 65535 is an id like any other.
pub fn c06_witness_65536_ids(ctx: &mut Ctx, prop: &str) {
    let mut right = String::new();
    for i in 1..=65535u32 {
        right += &format!("{i}\t{}\n", if i == 65535 { "x" } else if i == 1 { "w" } else { "z" });
    }
    let conn = ConnTexts::Bigram { right: right.into_bytes(), left: b"1\ty\n".to_vec(), cost: b"x/y\t5\nz/y\t-3\nw/y\t11\n".to_vec(), dual: false };
    let case = json!({"bigram.right": "65535 lines: `1<TAB>w`, `i<TAB>z`, `65535<TAB>x`", "bigram.left": "1\ty", "bigram.cost": "x/y\t5\nz/y\t-3\nw/y\t11", "lex.csv": "a,1,65535,0,A\nb,1,1,0,B", "mapping": "right: old i -> new 65536 - i; left: identity"});
    let d = match build_from_texts(b"a,1,65535,0,A\nb,1,1,0,B\n", b"DEFAULT 0 1 0\n", b"DEFAULT,0,0,100,U\n", &conn) {
        BuildOutcome::Ok(d) => d,
        _ => {
            ctx.note(format!("{prop} witness 65536 ids: dictionary not built"));
            return;
        }
    };
    ctx.eval();
    // new id k is taken by old id 65536 - k
    let ri: Vec<u16> = (1..=65535u32).map(|k| (65536 - k) as u16).collect();
    let li: Vec<u16> = vec![1];
    let key = format!("{prop}:witness:65536-right-ids");
    let d = match guarded(move || d.map_connection_ids_from_iter(li, ri).map_err(|e| e.to_string())) {
        Ok(Ok(d)) => d,
        Ok(Err(e)) => {
            ctx.violation("valid_mapping_rejected", &key, e, case);
            return;
        }
        Err(p) => {
            ctx.violation("mapping_panicked", &key, p, case);
            return;
        }
    };
    match guarded(|| (vibrato::verif::conn_cost(&d, 1, 1), vibrato::verif::conn_cost(&d, 2, 1), vibrato::verif::conn_cost(&d, 65535, 1))) {
        Ok((5, -3, 11)) => {}
        Ok(v) => {
            ctx.violation("mapped_connector_differs", &key, format!("costs of new (1,1), (2,1), (65535,1) = {:?}, expected (5, -3, 11)", v), case);
            return;
        }
        Err(p) => {
            ctx.violation("mapped_connector_lookup_panicked", &key, p, case);
            return;
        }
    }
    let tok = Tokenizer::new(d);
    let mut w = tok.new_worker();
    // the word whose right id is 65535 followed by another word: the connection (65535, 1) costs 11
    match tokenize(&mut w, "ba") {
        Ok(t) if t.len() == 2 && t[0].r == 65535 && t[1].r == 1 && t[1].total == 11 => {}
        Ok(t) => {
            ctx.violation("mapped_tokens_differ", &key, format!("tokens of \"ba\": {:?}; expected b(r=65535) a(r=1), total 11", toks_brief(&t)), case);
            return;
        }
        Err(p) => {
            ctx.violation("tokenize_panicked", &key, p, case);
            return;
        }
    }
    match tokenize(&mut w, "ab") {
        Ok(t) if t.len() == 2 && t[0].r == 1 && t[1].r == 65535 && t[1].total == 5 => ctx.bucket("witness_65536_right_ids_mapped_ok"),
        Ok(t) => ctx.violation("mapped_tokens_differ", &key, format!("tokens of \"ab\": {:?}; expected a(r=1) b(r=65535), total 5", toks_brief(&t)), case),
        Err(p) => ctx.violation("tokenize_panicked", &key, p, case),
    }
}

#[derive(Clone, Debug)]
enum MOp {
    Map(Vec<usize>, Vec<usize>),
    LoadUser,
    WriteRead,
}

fn compose(first: &[usize], then: &[usize]) -> Vec<usize> {
    first.iter().map(|&x| then[x]).collect()
}

pub fn c06_case(ctx: &mut Ctx, rng: &mut Rng) {
    let cfg = GenCfg { max_ids: 6, ..Default::default() };
    let spec = gen_dict(rng, &cfg);
    let (nr, nl) = spec.conn.dims();
    let user = gen_user(rng, &spec, &cfg);
    let opts = gen_opts(rng, &spec);
    let sentences: Vec<String> = (0..16).map(|_| gen_sentence(rng, &spec, Some(&user))).collect();
    let base = match build_spec(&spec) {
        BuildOutcome::Ok(d) => d,
        _ => {
            ctx.bucket("dict_rejected");
            return;
        }
    };
    ctx.bucket("dict_accepted");
    ctx.bucket(&format!("connector_{}", spec.conn.kind()));
    let texts = |ops: &Vec<String>| json!({"lex.csv": spec.lex_csv(), "char.def": spec.char_def(), "unk.def": spec.unk_def(), "connector": format!("{:?}", conn_texts(&spec.conn)), "user.csv": lex_csv(&user), "ops": ops, "opts": opts});

    // ---- malformed mappings are rejected with an error
    let good_l = perm_to_iter(&gen_perm_ids(rng, nl));
    let good_r = perm_to_iter(&gen_perm_ids(rng, nr));
    let mut bad: Vec<(&str, Vec<u16>, Vec<u16>)> = vec![];
    let mutate = |rng: &mut Rng, v: &Vec<u16>, kind: usize| -> Vec<u16> {
        let mut v = v.clone();
        match kind {
            0 => {
                if v.is_empty() {
                    v.push(0)
                } else {
                    let i = rng.below(v.len());
                    v[i] = 0
                }
            }
            1 => {
                if v.len() >= 2 {
                    let i = rng.below(v.len());
                    let j = (i + 1) % v.len();
                    v[i] = v[j]
                } else {
                    v.push(1);
                    v.push(1)
                }
            }
            2 => {
                v.pop();
                if v.is_empty() && rng.chance(0.5) {
                    v.clear()
                }
            }
            3 => v.push(v.len() as u16 + 1),
            4 => {
                if v.is_empty() {
                    v.push(7)
                } else {
                    let i = rng.below(v.len());
                    v[i] = (v.len() + 1 + rng.below(3)) as u16
                }
            }
            _ => v.push(u16::MAX),
        }
        v
    };
    let names = ["contains_0", "duplicate", "too_short", "too_long", "out_of_range", "too_long_u16max"];
    for k in 0..names.len() {
        let left_side = rng.chance(0.5);
        let (l, r) = if left_side { (mutate(rng, &good_l, k), good_r.clone()) } else { (good_l.clone(), mutate(rng, &good_r, k)) };
        // a mutation may by accident still be a valid permutation of the right length
        let valid = |v: &Vec<u16>, n: usize| v.len() == n - 1 && { let mut s = v.clone(); s.sort(); s.iter().enumerate().all(|(i, &x)| x as usize == i + 1) };
        if valid(&l, nl) && valid(&r, nr) {
            continue;
        }
        bad.push((names[k], l, r));
    }
    for (name, l, r) in bad {
        let d = match build_spec(&spec) {
            BuildOutcome::Ok(d) => d,
            _ => return,
        };
        // on a dictionary that may already carry a user lexicon / an earlier mapping
        let d = if rng.chance(0.5) { load_user(d, Some(&user)).ok().and_then(|r| r.ok()) } else { Some(d) };
        let d = match d {
            Some(d) => d,
            None => continue,
        };
        ctx.eval();
        let (l2, r2) = (l.clone(), r.clone());
        match guarded(move || d.map_connection_ids_from_iter(l2, r2).is_ok()) {
            Ok(false) => ctx.bucket(&format!("malformed_mapping_rejected_{name}")),
            Ok(true) => ctx.violation("malformed_mapping_accepted", &format!("C06:malformed_mapping_accepted:{name}"), format!("lmap {:?} rmap {:?} for a {nr}x{nl} connector", l, r), texts(&vec![format!("map {name}")])),
            Err(p) => ctx.violation("malformed_mapping_panicked", &format!("C06:malformed_mapping_panicked:{name}:{}", panic_class(&p)), format!("lmap {:?} rmap {:?} for a {nr}x{nl} connector: {p}", l, r), texts(&vec![format!("map {name}")])),
        }
    }

    // ---- a history of operations
    let nops = 1 + rng.below(4);
    let mut ops: Vec<MOp> = vec![];
    for _ in 0..nops {
        ops.push(match rng.below(5) {
            0 | 1 | 2 => MOp::Map(gen_perm_ids(rng, nl), gen_perm_ids(rng, nr)),
            3 => MOp::LoadUser,
            _ => MOp::WriteRead,
        });
    }
    if !ops.iter().any(|o| matches!(o, MOp::Map(..))) {
        ops.push(MOp::Map(gen_perm_ids(rng, nl), gen_perm_ids(rng, nr)));
    }
    let opnames: Vec<String> = ops
        .iter()
        .map(|o| match o {
            MOp::Map(pl, pr) => format!("map lmap={:?} rmap={:?}", perm_to_iter(pl), perm_to_iter(pr)),
            MOp::LoadUser => "load user lexicon".into(),
            MOp::WriteRead => "write/read".into(),
        })
        .collect();
    let mut d = match build_spec(&spec) {
        BuildOutcome::Ok(d) => d,
        _ => return,
    };
    let mut tl: Vec<usize> = (0..nl).collect();
    let mut tr: Vec<usize> = (0..nr).collect();
    let mut has_user = false;
    let mut nmaps = 0;
    let mut user_after_maps = 0;
    for op in &ops {
        let r: Result<Result<Dictionary, String>, String> = match op {
            MOp::Map(pl, pr) => {
                tl = compose(&tl, pl);
                tr = compose(&tr, pr);
                nmaps += 1;
                let (li, ri) = (perm_to_iter(pl), perm_to_iter(pr));
                guarded(move || d.map_connection_ids_from_iter(li, ri).map_err(|e| e.to_string()))
            }
            MOp::LoadUser => {
                has_user = true;
                user_after_maps = nmaps;
                load_user(d, Some(&user))
            }
            MOp::WriteRead => match write_dict(&d) {
                Ok((b, _)) => read_dict(&b),
                Err(e) => Err(e),
            },
        };
        d = match r {
            Ok(Ok(d)) => d,
            Ok(Err(e)) => {
                ctx.violation("valid_operation_rejected", "C06:valid_operation_rejected", format!("{op:?}: {e}"), texts(&opnames));
                return;
            }
            Err(p) => {
                ctx.violation("operation_panicked", &format!("C06:operation:{}", panic_class(&p)), format!("{op:?}: {p}"), texts(&opnames));
                return;
            }
        };
    }
    if nmaps >= 2 {
        ctx.bucket("mapped_twice_or_more");
    }
    if has_user && user_after_maps >= 2 {
        ctx.bucket("user_lexicon_after_two_mappings");
    }
    if has_user && user_after_maps == 0 {
        ctx.bucket("user_lexicon_before_mapping");
    }
    if has_user && user_after_maps >= 1 {
        ctx.bucket("user_lexicon_after_mapping");
    }
    if ops.iter().any(|o| matches!(o, MOp::WriteRead)) {
        ctx.bucket("with_write_read");
    }
    // connector: cost'(pi_R r, pi_L l) == cost(r, l) for every pair, incl. row/column 0
    let spec_m = spec.mapped(&tl, &tr);
    let user_m = map_rows(&user, &tl, &tr);
    let refd0 = RefDict::new(&spec, if has_user { Some(&user) } else { None });
    let refd = RefDict::new(&spec_m, if has_user { Some(&user_m) } else { None });
    ctx.eval();
    for r in 0..nr {
        for l in 0..nl {
            let c0 = vibrato::verif::conn_cost(&base, r as u16, l as u16);
            let c1 = match guarded(|| vibrato::verif::conn_cost(&d, tr[r] as u16, tl[l] as u16)) {
                Ok(c) => c,
                Err(p) => {
                    ctx.violation("mapped_cost_lookup_panicked", &format!("C06:cost:{}", panic_class(&p)), p, texts(&opnames));
                    return;
                }
            };
            if c0 != c1 {
                ctx.violation("mapped_connection_cost_differs", "C06:mapped_connection_cost_differs", format!("cost(right {r}, left {l}) = {c0} before, but cost(right {}, left {}) = {c1} after mapping", tr[r], tl[l]), texts(&opnames));
                return;
            }
        }
    }
    ctx.total("id_pairs_compared", (nr * nl) as u64);
    // tokens before/after
    let base_d = if has_user {
        match load_user(base, Some(&user)) {
            Ok(Ok(d)) => d,
            _ => return,
        }
    } else {
        base
    };
    let t0 = match make_tokenizer(base_d, opts) {
        Ok(t) => t,
        Err(_) => return,
    };
    let t1 = match make_tokenizer(d, opts) {
        Ok(t) => t,
        Err(e) => {
            ctx.violation("mapped_dictionary_rejects_options", "C06:make_tokenizer", e, texts(&opnames));
            return;
        }
    };
    let mut w0 = t0.new_worker();
    let mut w1 = t1.new_worker();
    for s in &sentences {
        let a = match tokenize(&mut w0, s) {
            Ok(t) => t,
            Err(_) => {
                w0 = t0.new_worker();
                continue;
            }
        };
        ctx.eval();
        let b = match tokenize(&mut w1, s) {
            Ok(t) => t,
            Err(p) => {
                ctx.violation("mapped_tokenize_panicked", &format!("C06:tokenize:{}", panic_class(&p)), p, json!({"files": texts(&opnames), "sentence": s}));
                w1 = t1.new_worker();
                continue;
            }
        };
        let chars: Vec<char> = s.chars().collect();
        let rout0 = refd0.analyze(&chars, opts);
        let unique = rout0.n_opt == 1;
        let proj = |t: &Tok| (t.surface.clone(), t.feat.clone(), t.lex, t.wcost, t.total);
        let pa: Vec<_> = a.iter().map(proj).collect();
        let pb: Vec<_> = b.iter().map(proj).collect();
        let case_json = || json!({"files": texts(&opnames), "sentence": s});
        if pa != pb {
            if unique {
                ctx.violation("mapping_changed_tokenization", "C06:mapping_changed_tokenization", format!("before {:?}\n after {:?}", toks_brief(&a), toks_brief(&b)), case_json());
                continue;
            }
            // several optimal paths: the total costs must still agree
            let ca = a.last().map(|t| t.total);
            let cb = b.last().map(|t| t.total);
            let fa = path_cost(&refd0, &a).ok();
            let fb = path_cost(&refd, &b).ok();
            if fa.is_none() || fa != fb {
                ctx.violation("mapping_changed_optimal_cost", "C06:mapping_changed_optimal_cost", format!("before {:?} ({ca:?})\n after {:?} ({cb:?})", toks_brief(&a), toks_brief(&b)), case_json());
                continue;
            }
            ctx.bucket("tie_divergence");
        } else {
            // ids changed consistently with the permutation
            for (x, y) in a.iter().zip(&b) {
                if tl[x.l as usize] != y.l as usize || tr[x.r as usize] != y.r as usize {
                    ctx.violation("ids_not_mapped_consistently", "C06:ids_not_mapped_consistently", format!("token {:?}: ids (l{}, r{}) became (l{}, r{}) but the permutation gives (l{}, r{})", x.surface, x.l, x.r, y.l, y.r, tl[x.l as usize], tr[x.r as usize]), case_json());
                    break;
                }
            }
            // and the mapped description explains the mapped run
            if let Err((check, detail)) = path_cost(&refd, &b).map(|_| ()) {
                ctx.violation(&check, &format!("C06:{check}"), detail, case_json());
            }
        }
        if chars.len() >= 2 {
            ctx.distinct(hash_bytes(format!("{}{:?}{:?}{}", serde_json::to_string(&spec).unwrap(), opnames, s, has_user).as_bytes()));
        }
        if b.iter().any(|t| t.lex == 1) {
            ctx.bucket("user_token_after_mapping");
        }
        if ctx.want_sample() && a.len() >= 2 {
            ctx.sample(json!({"ops": opnames, "sentence": s, "before": toks_brief(&a), "after": toks_brief(&b)}));
        }
    }
}

// ---------------------------------------------------------------- C08

pub fn c08_case(ctx: &mut Ctx, rng: &mut Rng) {
    let cfg = GenCfg { max_ids: 5, ..Default::default() };
    let spec = gen_dict(rng, &cfg);
    let (nr, nl) = spec.conn.dims();
    let u1 = gen_user(rng, &spec, &cfg);
    let u2 = gen_user(rng, &spec, &cfg);
    let opts = gen_opts(rng, &spec);
    let mapped = rng.chance(0.4);
    let twice = mapped && rng.chance(0.5);
    let (pl1, pr1) = if mapped { (gen_perm_ids(rng, nl), gen_perm_ids(rng, nr)) } else { ((0..nl).collect(), (0..nr).collect()) };
    let (pl2, pr2): (Vec<usize>, Vec<usize>) = if twice { (gen_perm_ids(rng, nl), gen_perm_ids(rng, nr)) } else { ((0..nl).collect(), (0..nr).collect()) };
    // total permutation = first then second
    let pl: Vec<usize> = pl1.iter().map(|&x| pl2[x]).collect();
    let pr: Vec<usize> = pr1.iter().map(|&x| pr2[x]).collect();
    let sentences: Vec<String> = (0..14).map(|_| { let pick = rng.chance(0.5); gen_sentence(rng, &spec, Some(if pick { &u1 } else { &u2 })) }).collect();
    let nmaps = if twice { 2 } else if mapped { 1 } else { 0 };
    // how many of the mappings are applied AFTER the load/replace/clear history (on a dictionary that carries a
    // user lexicon) instead of before it: the result must be the same
    let late = if nmaps > 0 && rng.chance(0.4) { 1 + rng.below(nmaps) } else { 0 };
    let map_k = |d: Dictionary, k: usize| -> Option<Dictionary> {
        let (li, ri) = if k == 0 { (perm_to_iter(&pl1), perm_to_iter(&pr1)) } else { (perm_to_iter(&pl2), perm_to_iter(&pr2)) };
        guarded(move || d.map_connection_ids_from_iter(li, ri).ok()).ok().flatten()
    };
    let mk_n = |ctx: &mut Ctx, n: usize| -> Option<Dictionary> {
        let mut d = match build_spec(&spec) {
            BuildOutcome::Ok(d) => d,
            _ => {
                ctx.bucket("dict_rejected");
                return None;
            }
        };
        for k in 0..n {
            d = map_k(d, k)?;
        }
        Some(d)
    };
    let mk = |ctx: &mut Ctx| -> Option<Dictionary> { mk_n(ctx, nmaps) };
    if twice {
        ctx.bucket("dictionary_mapped_twice");
    }
    let files = |extra: serde_json::Value| json!({"lex.csv": spec.lex_csv(), "char.def": spec.char_def(), "unk.def": spec.unk_def(), "connector": format!("{:?}", conn_texts(&spec.conn)),
        "mapped(lmap,rmap)": if mapped { Some((perm_to_iter(&pl), perm_to_iter(&pr))) } else { None },
        "mappings": if twice { json!([(perm_to_iter(&pl1), perm_to_iter(&pr1)), (perm_to_iter(&pl2), perm_to_iter(&pr2))]) } else if mapped { json!([(perm_to_iter(&pl1), perm_to_iter(&pr1))]) } else { json!([]) },
        "mappings_applied_after_the_user_lexicon_history": late, "opts": opts, "detail": extra});
    let spec_m = spec.mapped(&pl, &pr);

    // ---- invalid user lexicons are rejected with an error
    {
        let mut bad_rows: Vec<(&str, String)> = vec![
            ("left_id_out_of_range", format!("zz,{},0,1,X\n", nl + rng.below(3))),
            ("right_id_out_of_range", format!("zz,0,{},1,X\n", nr + rng.below(3))),
            ("id_65535", "zz,65535,0,1,X\n".to_string()),
            ("good_then_bad_right", format!("{}zz,0,{},1,X\n", lex_csv(&u1), nr)),
            ("too_few_columns", "zz,0,0\n".to_string()),
            ("non_numeric_id", "zz,a,0,1,X\n".to_string()),
            ("non_numeric_cost", "zz,0,0,c,X\n".to_string()),
            ("negative_id", "zz,-1,0,1,X\n".to_string()),
            ("cost_out_of_i16", "zz,0,0,40000,X\n".to_string()),
            // ids that do not fit 16 bits and are valid modulo 65536
            ("left_id_beyond_u16", format!("zz,{},0,1,X\n", 65536 * (1 + rng.below(3)) + rng.below(nl))),
            ("right_id_beyond_u16", format!("zz,0,{},1,X\n", 65536 * (1 + rng.below(3)) + rng.below(nr))),
            ("cost_beyond_i16_wrapping_to_valid", format!("zz,0,0,{},X\n", 65536 + rng.below(100))),
        ];
        bad_rows.truncate(12);
        let mut bad_bytes: Vec<(&str, Vec<u8>, String)> = bad_rows.into_iter().map(|(n, s)| (n, s.clone().into_bytes(), s)).collect();
        // bytes that are not UTF-8, in the surface and in the feature
        bad_bytes.push(("surface_not_utf8", b"\xff\xfe,0,0,1,X\n".to_vec(), "<FF FE>,0,0,1,X".to_string()));
        bad_bytes.push(("feature_not_utf8", b"zz,0,0,1,\xe3\x81\n".to_vec(), "zz,0,0,1,<E3 81>".to_string()));
        for (name, bytes, csv) in bad_bytes {
            let d = match mk(ctx) {
                Some(d) => d,
                None => return,
            };
            // possibly on top of an already loaded lexicon
            let d = if rng.chance(0.3) { load_user(d, Some(&u2)).ok().and_then(|r| r.ok()).unwrap_or_else(|| mk(ctx).unwrap()) } else { d };
            ctx.eval();
            let csv2 = bytes.clone();
            match guarded(move || d.reset_user_lexicon_from_reader(Some(csv2.as_slice())).is_ok()) {
                Ok(false) => ctx.bucket(&format!("invalid_user_lexicon_rejected_{name}")),
                Ok(true) => ctx.violation("invalid_user_lexicon_accepted", &format!("C08:invalid_user_lexicon_accepted:{name}"), format!("user csv {:?} for a {nr}x{nl} connector", csv), files(json!({"user.csv": csv}))),
                Err(p) => ctx.violation("invalid_user_lexicon_panicked", &format!("C08:invalid_user_lexicon_panicked:{name}:{}", panic_class(&p)), format!("user csv {:?}: {p}", csv), files(json!({"user.csv": csv}))),
            }
        }
        if mapped {
            ctx.bucket("invalid_rows_on_mapped_dictionary");
        }
    }

    // ---- histories of load / replace / clear
    let hist_len = 1 + rng.below(5);
    let mut hist: Vec<Option<usize>> = (0..hist_len).map(|_| match rng.below(4) { 0 => None, 1 | 2 => Some(1), _ => Some(2) }).collect();
    if rng.chance(0.3) {
        hist.push(None);
    }
    let mut d = match mk_n(ctx, nmaps - late) {
        Some(d) => d,
        None => return,
    };
    for h in &hist {
        let rows = h.map(|k| if k == 1 { &u1[..] } else { &u2[..] });
        d = match load_user(d, rows) {
            Ok(Ok(d)) => d,
            Ok(Err(e)) => {
                ctx.violation("valid_user_lexicon_rejected", "C08:valid_user_lexicon_rejected", e, files(json!({"history": format!("{hist:?}"), "u1": lex_csv(&u1), "u2": lex_csv(&u2)})));
                return;
            }
            Err(p) => {
                ctx.violation("load_user_lexicon_panicked", &format!("C08:load:{}", panic_class(&p)), p, files(json!({"history": format!("{hist:?}"), "u1": lex_csv(&u1), "u2": lex_csv(&u2)})));
                return;
            }
        };
    }
    for k in nmaps - late..nmaps {
        d = match map_k(d, k) {
            Some(d) => d,
            None => {
                ctx.violation("mapping_failed_with_user_lexicon_loaded", "C08:mapping_failed_with_user_lexicon_loaded", format!("mapping {} of {nmaps} (a valid permutation) failed or panicked on the dictionary after the history", k + 1), files(json!({"history": format!("{hist:?}"), "u1": lex_csv(&u1), "u2": lex_csv(&u2)})));
                return;
            }
        };
    }
    if late > 0 {
        ctx.bucket(if late == 2 { "two_mappings_after_the_history" } else if nmaps == 2 { "second_mapping_after_the_history" } else { "mapping_after_the_history" });
    }
    let last = *hist.last().unwrap();
    let last_rows: Option<Vec<LexRow>> = last.map(|k| if k == 1 { u1.clone() } else { u2.clone() });
    // model A: the same final lexicon loaded alone on a fresh dictionary (replace/clear semantics)
    let da = match mk(ctx) {
        Some(d) => d,
        None => return,
    };
    let da = match load_user(da, last_rows.as_deref()) {
        Ok(Ok(d)) => d,
        _ => return,
    };
    // model B: system lexicon extended by the same rows
    let mut spec_ext = spec.clone();
    if let Some(rows) = &last_rows {
        spec_ext.lex.extend(rows.iter().cloned());
    }
    let db = match build_spec(&spec_ext) {
        BuildOutcome::Ok(d) => {
            if mapped {
                let (li, ri) = (perm_to_iter(&pl), perm_to_iter(&pr));
                match guarded(move || d.map_connection_ids_from_iter(li, ri).ok()) {
                    Ok(Some(d)) => d,
                    _ => return,
                }
            } else {
                d
            }
        }
        _ => return,
    };
    match last {
        None => ctx.bucket("history_ends_with_clear"),
        Some(_) if hist.len() >= 2 && hist[hist.len() - 2].is_some() && hist[hist.len() - 2] != last => ctx.bucket("history_replaces_lexicon"),
        _ => ctx.bucket("history_ends_with_load"),
    }
    let user_m = last_rows.as_ref().map(|r| map_rows(r, &pl, &pr));
    let refd = RefDict::new(&spec_m, user_m.as_deref());
    let (t, ta, tb) = match (make_tokenizer(d, opts), make_tokenizer(da, opts), make_tokenizer(db, opts)) {
        (Ok(a), Ok(b), Ok(c)) => (a, b, c),
        _ => return,
    };
    let (mut w, mut wa, mut wb) = (t.new_worker(), ta.new_worker(), tb.new_worker());
    let hist_s = format!("{hist:?}");
    for s in &sentences {
        let cj = || files(json!({"history(None=clear,1=u1,2=u2)": hist_s, "u1": lex_csv(&u1), "u2": lex_csv(&u2), "sentence": s}));
        let x = match tokenize(&mut w, s) {
            Ok(t) => t,
            Err(p) => {
                ctx.violation("tokenize_panicked_after_user_lexicon_ops", &format!("C08:tokenize:{}", panic_class(&p)), p, cj());
                w = t.new_worker();
                continue;
            }
        };
        ctx.eval();
        let dump = vibrato::verif::dump_lattice(&w);
        let xa = match tokenize(&mut wa, s) {
            Ok(t) => t,
            Err(_) => {
                wa = ta.new_worker();
                continue;
            }
        };
        let dump_a = vibrato::verif::dump_lattice(&wa);
        // replace / clear: behaviour identical to the final lexicon alone (same structures => exact)
        if x != xa {
            let what = if last.is_none() { "clear_does_not_restore_original_behaviour" } else { "replace_differs_from_loading_alone" };
            ctx.violation(what, &format!("C08:{what}"), format!("after the history {:?}\n alone {:?}", toks_brief(&x), toks_brief(&xa)), cj());
            continue;
        }
        let key = |dump: &vibrato::verif::LatticeDump, dict: &Dictionary, with_type: bool| {
            let mut v: Vec<(usize, usize, u8, u16, u16, i16, String)> = dump_candidates(dump, dict).into_iter().flat_map(|(w, c)| c.into_iter().map(move |(k, _, _)| (w, k.0, k.1, k.2, k.3, k.4, k.5))).collect();
            if !with_type {
                for e in v.iter_mut() {
                    if e.2 == 1 {
                        e.2 = 0;
                    }
                }
            }
            v.sort();
            v
        };
        if key(&dump, t.dictionary(), true) != key(&dump_a, ta.dictionary(), true) {
            ctx.violation("candidates_differ_after_replace_or_clear", "C08:candidates_differ_after_replace_or_clear", "candidate multisets differ between the history and the final lexicon loaded alone".into(), cj());
            continue;
        }
        // token provenance
        let chars: Vec<char> = s.chars().collect();
        if let Err((check, detail)) = check_partition(&spec_m, user_m.as_deref(), opts, s, &x, t.dictionary()) {
            ctx.violation(&check, &format!("C08:{check}"), detail, cj());
            continue;
        }
        // equivalence with the extended system lexicon: candidates (modulo type) and optimal cost
        let xb = match tokenize(&mut wb, s) {
            Ok(t) => t,
            Err(p) => {
                ctx.note(format!("extended-system dictionary panicked: {p}"));
                wb = tb.new_worker();
                continue;
            }
        };
        if chars.is_empty() {
            continue;
        }
        let dump_b = vibrato::verif::dump_lattice(&wb);
        let (ka, kb) = (key(&dump, t.dictionary(), false), key(&dump_b, tb.dictionary(), false));
        if ka != kb {
            let missing: Vec<_> = kb.iter().filter(|k| !ka.contains(k)).take(3).collect();
            let extra: Vec<_> = ka.iter().filter(|k| !kb.contains(k)).take(3).collect();
            ctx.violation("candidates_differ_from_extended_system_lexicon", "C08:candidates_differ_from_extended_system_lexicon", format!("missing {:?} unexpected {:?}", missing, extra), cj());
            continue;
        }
        let (ca, cb) = (path_cost(&refd, &x), path_cost(&refd, &xb));
        match (ca, cb) {
            (Ok(a), Ok(b)) if a == b => {}
            (a, b) => {
                ctx.violation("optimal_cost_differs_from_extended_system_lexicon", "C08:optimal_cost_differs_from_extended_system_lexicon", format!("user-lexicon dictionary {:?} ({a:?}) vs extended system {:?} ({b:?})", toks_brief(&x), toks_brief(&xb)), cj());
                continue;
            }
        }
        if last.is_some() && !o_ignore_general(opts, &spec_m, user_m.as_deref()) {
            let rout = refd.analyze(&chars, opts);
            if let Err((check, detail)) = check_candidates(&rout, &dump, t.dictionary(), true) {
                ctx.violation(&check, &format!("C08:{check}"), detail, cj());
                continue;
            }
        }
        if x.iter().any(|t| t.lex == 1) {
            ctx.bucket("user_token_on_best_path");
        }
        if x.iter().any(|t| t.lex == 0) && last.is_some() {
            ctx.bucket("system_token_with_user_lexicon_loaded");
        }
        if chars.len() >= 2 {
            ctx.distinct(hash_bytes(format!("{}{}{:?}{}", serde_json::to_string(&spec).unwrap(), hist_s, s, mapped).as_bytes()));
        }
        if ctx.want_sample() && x.iter().any(|t| t.lex == 1) {
            ctx.sample(json!({"history": hist_s, "sentence": s, "tokens": toks_brief(&x), "extended_system_tokens": toks_brief(&xb)}));
        }
    }
}

fn o_ignore_general(o: Opts, spec: &DictSpec, user: Option<&[LexRow]>) -> bool {
    o.ignore_space && !is_clean_space(spec, user)
}
