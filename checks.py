"""Per-property configuration of the checks: stages (flavour, case counts and time budgets per
tier as [quick, thorough]), coverage that must be observed for a pass, and the evidence text."""

LEVELS = {"C09": "fault_enumeration"}


def st(name, flavour, cases, budget, **kw):
    d = {"name": name, "flavour": flavour, "cases": cases, "budget_s": budget}
    d.update(kw)
    return d


CHECKS = {
    "C01": {
        "stages": [
            st("main", "rel", [1500, 40000], [25, 420]),
            st("dbgassert", "relda", [300, 6000], [20, 300], shards=8),
            st("asan", "asan", [0, 1500], [0, 300], thorough_only=True, shards=8),
        ],
        "rule": "case = generated dictionary (1-6 categories, overlapping ranges, matrix/raw/dual connector, optional user lexicon, "
                "optional id mapping before/after the user lexicon, optional write/read) x 1-2 option settings x 24 strings over a "
                "1-4-byte alphabet; every tokenization is judged by the partition checker. Non-trivial = sentence of >= 2 characters "
                "with a complete reference path; distinct = hash of (dictionary description, user lexicon, mapping, sentence, options).",
        "required_buckets": ["connector_matrix", "connector_raw", "connector_dual", "with_user_lexicon", "with_id_mapping",
                             "astral_in_sentence", "inner_gap_observed", "leading_gap_observed", "trailing_gap_observed",
                             "unknown_token_observed", "user_token_observed"],
        "assumptions": ["the reference character table (last covering range line wins, DEFAULT otherwise) is the reading of char.def the property states",
                        "termination is observed up to the per-stage watchdog only"],
    },
    "C02": {
        "stages": [
            st("main", "rel", [1500, 40000], [25, 420]),
            st("dbgassert", "relda", [300, 6000], [20, 300], shards=8),
        ],
        "rule": "same generator as C01, 30% tie-heavy dictionaries; every non-empty tokenization is judged (a) by an independent i64 DP over "
                "the dumped lattice (Viterbi recurrence of every node and of EOS, back-pointers, reported tokens = back-pointer chain, "
                "total_cost = prefix sums) and (b) black-box against the reference optimum over reference candidates. Non-trivial = "
                "lattice with a boundary where >= 2 nodes end; distinct = hash of (dictionary, user lexicon, mapping, sentence, options).",
        "required_buckets": ["connector_matrix", "connector_raw", "connector_dual", "tie_among_optimal_paths", "eos_connection_decides",
                             "negative_word_cost_on_path", "blackbox_optimum_compared"],
        "assumptions": ["accumulated costs stay within i32 (cases beyond half the range are skipped and counted)",
                        "connection costs used by the oracle come from the generator's description, not from the connector under test"],
    },
    "C03": {
        "stages": [
            st("main", "rel", [1500, 40000], [25, 420]),
            st("dbgassert", "relda", [300, 6000], [20, 300], shards=8),
        ],
        "rule": "generated dictionaries sweeping invoke/group/length, max_grouping_len and overlapping/multi-category ranges; for every "
                "sentence the multiset of lattice nodes per start position (end, lexicon type, ids, cost, feature, row index) is compared "
                "with the reference candidate rule, the set of processed positions likewise, and the character table hook with the "
                "reference table. Non-trivial = non-empty sentence fully compared; distinct = hash of (dictionary, sentence, options).",
        "required_buckets": ["invoke0_lex_match_suppresses", "invoke1_with_lex_match", "group_run", "group_omitted_by_mgl",
                             "length_limited_by_run", "dup_run_length_skipped", "fallback_single_char", "multi_category_char",
                             "astral_start", "homographs_at_position", "user_lexicon_candidate", "space_skipped"],
        "required_buckets_thorough": ["whole_bmp_table_compared"],
        "assumptions": ["with ignore_space the candidate comparison is made only on dictionaries meeting C12's precondition"],
    },
    "C04": {
        "stages": [
            st("main", "rel", [250, 6000], [25, 400]),
            st("dbgassert", "relda", [60, 1000], [20, 200], shards=4),
            st("tsan", "tsan", [40, 800], [30, 300], shards=4),
            st("miri", "miri", [0, 1], [0, 1500], thorough_only=True, shards=1, watchdog_factor=2,
               env={"MIRIFLAGS_EXTRA": "-Zmiri-many-seeds=0..8"}),
        ],
        "rule": "case = generated dictionary + <= 6 distinct sentences (empty, one char, tripled, spaces only ...); (1) a random history of "
                "reset_sentence/tokenize (0-3 times)/init_connid_counter/update_connid_counts of length <= 40 on ONE worker, every result "
                "read after a tokenize is compared with a fresh worker's result for the same sentence; (2) 2-16 threads, each with its own "
                "worker of ONE shared Tokenizer, run random sentence lists concurrently with seeded yield points, each result compared with "
                "the sequential one; client-side tickets record overlapping calls. TSan (and Miri, thorough) watch the thread workload. "
                "Non-trivial = a history, or a thread workload in which calls of different threads overlapped; distinct by content hash.",
        "required_buckets": ["tokenize_repeated", "shorter_after_longer", "empty_sentence_in_history", "non_empty_after_empty",
                             "update_counts_in_history", "threads_overlapped"],
        "assumptions": ["interleavings are sampled (OS scheduler + seeded yields), not enumerated",
                        "Tokenizer: Send + Sync and Dictionary: Send + Sync are asserted at compile time by the harness"],
    },
    "C06": {
        "stages": [
            st("main", "rel", [800, 20000], [25, 400]),
            st("dbgassert", "relda", [200, 3000], [20, 200], shards=8),
        ],
        "rule": "case = generated dictionary (matrix/raw/dual) + user lexicon + a history of 1-5 operations from {map with a random pair of "
                "permutations, load user lexicon, write/read} + 16 sentences; oracles: cost'(pi_R r, pi_L l) = cost(r,l) for every id pair "
                "incl. row/column 0 (real before vs real after), tokens before vs after (exact when the reference optimum is unique, by "
                "cost otherwise), ids translated by the composed permutation, mapped run explained by the mapped description; six kinds of "
                "malformed iterators must yield Err. Distinct = hash of (dictionary, operation history, sentence).",
        "required_buckets": ["connector_matrix", "connector_raw", "connector_dual", "mapped_twice_or_more", "user_lexicon_after_two_mappings",
                             "user_lexicon_before_mapping", "with_write_read", "user_token_after_mapping",
                             "malformed_mapping_rejected_contains_0", "malformed_mapping_rejected_duplicate", "malformed_mapping_rejected_too_short",
                             "malformed_mapping_rejected_too_long", "malformed_mapping_rejected_out_of_range"],
        "assumptions": ["mapping convention as pinned by the existing test_parse_basic: the i-th item is the old id that receives new id i"],
    },
    "C08": {
        "stages": [
            st("main", "rel", [600, 15000], [25, 400]),
            st("dbgassert", "relda", [150, 2500], [20, 200], shards=8),
            st("asan", "asan", [0, 600], [0, 300], thorough_only=True, shards=8),
        ],
        "rule": "case = generated dictionary (optionally id-mapped) + two user lexicons + a load/replace/clear history of length 1-6 + 14 "
                "sentences; oracles: behaviour after the history == the final lexicon loaded alone (tokens exactly, candidate multisets), "
                "candidate multisets modulo lexicon type and optimal cost == system lexicon extended by the same rows, token provenance "
                "(user tokens are user rows), nine kinds of invalid user CSVs must yield Err on mapped and unmapped dictionaries. "
                "Distinct = hash of (dictionary, history, sentence).",
        "required_buckets": ["history_ends_with_clear", "history_replaces_lexicon", "history_ends_with_load", "user_token_on_best_path",
                             "system_token_with_user_lexicon_loaded", "invalid_rows_on_mapped_dictionary",
                             "invalid_user_lexicon_rejected_left_id_out_of_range", "invalid_user_lexicon_rejected_right_id_out_of_range",
                             "invalid_user_lexicon_rejected_too_few_columns"],
        "assumptions": ["byte identity of images after clear is not required (the property speaks of behaviour)"],
    },
    "C12": {
        "stages": [
            st("main", "rel", [1200, 30000], [25, 400]),
            st("dbgassert", "relda", [250, 4000], [20, 200], shards=8),
        ],
        "rule": "dictionaries meeting the stated precondition (U+0020/U+3000 in SPACE alone, nothing else in SPACE, no surface with a space) "
                "with ignore_space on; each sentence is compared with up to 8 re-spaced variants (every space run rewritten to another "
                "non-zero length/composition, leading/trailing runs added or removed): token sequences exactly when the reference optimum "
                "is unique, by optimal cost otherwise; no token contains a space; spaces-only sentences yield nothing; agreement with the "
                "reference skip rule (candidates, membership, optimum); ignore_space(true) without SPACE must be Err. "
                "Non-trivial = sentence with a space run and >= 1 token compared with >= 1 variant; distinct = hash of (dictionary, sentence).",
        "required_buckets": ["inner_space_run", "leading_space_run", "trailing_space_run", "spaces_only_sentence",
                             "grouped_unknown_word_next_to_space", "ignore_space_rejected_without_SPACE", "connector_matrix", "connector_raw", "connector_dual"],
        "assumptions": [],
    },
}
