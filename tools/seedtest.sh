#!/bin/bash
# Applies a seeded change to /repo, runs the quick checks of the given properties, and undoes it.
# usage: seedtest.sh <patch.diff> <prop> [<prop> ...]     (prints one line per property: DETECTED/MISSED/INCONCLUSIVE)
PATCH="$1"; shift
cd /repo || exit 2
git diff --quiet || { echo "/repo is dirty"; exit 2; }
git apply "$PATCH" || { echo "patch does not apply: $PATCH"; exit 2; }
for P in "$@"; do
  # the evidence file of the unchanged tree is put back afterwards (this run is of a patched tree)
  cp /verif/evidence/$P.json /tmp/seedtest.evidence.$P.json 2>/dev/null
  OUT=$(cd /verif && VERIF_TIER=${TIER:-quick} ./run "$P" ${TIER:-quick} 2>/tmp/seedtest.err)
  RC=$?
  cp /tmp/seedtest.evidence.$P.json /verif/evidence/$P.json 2>/dev/null; rm -f /tmp/seedtest.evidence.$P.json
  case $RC in
    1) echo "DETECTED $P $(echo "$OUT" | grep -c '^VIOLATION') violation lines: $(grep -m1 'check=' /tmp/seedtest.err | head -c 300)";;
    0) echo "MISSED $P";;
    *) echo "INCONCLUSIVE $P rc=$RC $(grep INCONCLUSIVE /tmp/seedtest.err | head -2 | head -c 400)";;
  esac
done
git -C /repo checkout -- .
rm -rf /verif/replays
