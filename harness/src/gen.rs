//! Workload generators (structure-aware, seeded).
use crate::model::*;
use crate::rng::Rng;

pub const ALPHA: &[char] = &[
    'a', 'b', 'c', ' ', '\u{3000}', 'あ', '漢', 'é', 'd', 'x', '1', '2', 'い', '字', '𠮷', '😀', 'ア', '-', '.', 'Z', '\u{10FFFF}', '\u{FEFF}',
];
pub const CAT_NAMES: &[&str] = &[
    "SPACE", "ALPHA", "KANJI", "NUMERIC", "SYMBOL", "HIRAGANA", "KATAKANA", "GREEK", "X1", "X2", "X3", "X4", "X5", "X6", "X7", "X8", "X9", "X10", "X11", "X12",
];

#[derive(Clone, Debug)]
pub struct GenCfg {
    /// SPACE category contains exactly U+0020 and U+3000 and nothing else; no surface has a space (C12 precondition)
    pub clean_space: bool,
    /// every category has at least one unk.def entry
    pub covered: bool,
    /// connector kind: 0 matrix, 1 raw, 2 dual, 3 any
    pub conn_kind: u8,
    pub max_cats: usize,
    pub max_lex: usize,
    pub max_ids: usize,
    /// all costs equal / tiny range (many ties)
    pub tie_heavy: bool,
    pub allow_u0000_range: bool,
}

impl Default for GenCfg {
    fn default() -> Self {
        GenCfg { clean_space: false, covered: true, conn_kind: 3, max_cats: 6, max_lex: 14, max_ids: 5, tie_heavy: false, allow_u0000_range: false }
    }
}

/// The characters lexicon surfaces are made of (csv_core drops a U+FEFF that opens a file: no surface contains it).
/// (A plain loop: an iterator chain here drew a stack-use-after-scope report from AddressSanitizer in safe code.)
fn surface_pool(clean_space: bool) -> Vec<char> {
    let mut v = Vec::with_capacity(ALPHA.len());
    for &c in ALPHA {
        if c != '\u{FEFF}' && !(clean_space && is_space(c)) {
            v.push(c);
        }
    }
    v
}

fn is_space(c: char) -> bool {
    c == ' ' || c == '\u{3000}'
}

pub fn gen_feature(rng: &mut Rng, tag: &str, i: usize) -> String {
    // (features are kept verbatim: blanks at the end, as in the row of the full-width space of IPADIC, included)
    if rng.chance(0.08) {
        return format!("{tag}{i},記号,空白,{}", ["\u{3000}", " ", "x ", "\u{3000}\u{3000}"][rng.below(4)]);
    }
    match rng.below(6) {
        0 => format!("{tag}{i}"),
        1 => format!("{tag}{i},名詞,*"),
        2 => format!("{tag}{i},\"q,1\",z"),
        3 => format!("{tag}{i},*,*,*,ヨミ"),
        4 => format!("{tag}{i}, sp ,x"),
        _ => format!("{tag}{i},A,B"),
    }
}

pub fn gen_cost(rng: &mut Rng, tie_heavy: bool) -> i16 {
    if tie_heavy {
        return [0i16, 1, 1, 2][rng.below(4)];
    }
    match rng.below(12) {
        0 => i16::MAX,
        1 => i16::MIN,
        2 => 0,
        3 | 4 => rng.range(-5, 5) as i16,
        _ => rng.range(-3000, 3000) as i16,
    }
}

pub fn gen_surface(rng: &mut Rng, pool: &[char], maxlen: usize) -> String {
    let len = 1 + rng.below(maxlen);
    (0..len).map(|_| if rng.chance(0.75) { pool[rng.below(pool.len().min(6))] } else { *rng.pick(pool) }).collect()
}

pub fn gen_rows(rng: &mut Rng, n: usize, nl: usize, nr: usize, tag: &str, pool: &[char], tie_heavy: bool, prior: &[LexRow]) -> Vec<LexRow> {
    let mut rows: Vec<LexRow> = vec![];
    for i in 0..n {
        let surface = if !rows.is_empty() && rng.chance(0.2) {
            // homograph of an earlier row
            rows[rng.below(rows.len())].surface.clone()
        } else if !prior.is_empty() && rng.chance(0.25) {
            let base = &prior[rng.below(prior.len())].surface;
            if rng.chance(0.5) {
                base.clone()
            } else {
                let mut s = base.clone();
                s.push(*rng.pick(pool));
                s
            }
        } else if !rows.is_empty() && rng.chance(0.25) {
            // extension of an earlier row (nested prefixes)
            let mut s = rows[rng.below(rows.len())].surface.clone();
            s.push(*rng.pick(pool));
            s
        } else {
            gen_surface(rng, pool, 3)
        };
        rows.push(LexRow { surface, l: rng.below(nl) as u16, r: rng.below(nr) as u16, cost: gen_cost(rng, tie_heavy), feat: gen_feature(rng, tag, i) });
        if rng.chance(0.08) {
            // the next row repeats surface and feature text and differs in its numbers only: still two words
            let mut again = rows.last().unwrap().clone();
            again.cost = gen_cost(rng, tie_heavy);
            if rng.chance(0.5) {
                again.l = rng.below(nl) as u16;
                again.r = rng.below(nr) as u16;
            }
            rows.push(again);
        }
    }
    rows
}

pub fn gen_bigram(rng: &mut Rng, nr: usize, nl: usize, dual: bool, k_choice: Option<usize>) -> Conn {
    // number of templates: includes < 8, = 8, 9, 16, 19
    let k = k_choice.unwrap_or_else(|| *rng.pick(&[1usize, 2, 3, 5, 7, 8, 9, 10, 12, 15, 16, 17, 19, 20]));
    // (features are compared verbatim: blanks at their edges, a lone blank and U+3000 are ordinary text)
    let vocab = ["p", "q", "名", "x y", "q,1", "R\"q", "", "長い特徴", "B3:名詞", " p", "q ", "\u{3000}", " "];
    let mk = |rng: &mut Rng, n: usize| -> Vec<Vec<String>> {
        (0..n)
            .map(|_| {
                let len = if rng.chance(0.25) { 1 + rng.below(k) } else { k };
                (0..len)
                    .map(|p| {
                        if rng.chance(0.2) {
                            "*".to_string()
                        } else if rng.chance(0.3) {
                            // strings shared across positions and sides
                            rng.pick(&vocab).to_string()
                        } else {
                            format!("{}{}", rng.pick(&vocab[..3]), p % 4)
                        }
                    })
                    .collect()
            })
            .collect()
    };
    let mut right = mk(rng, nr - 1);
    let mut left = mk(rng, nl - 1);
    // a row consisting of exactly one empty cell cannot be told from a row without cells in the file
    for row in right.iter_mut().chain(left.iter_mut()) {
        if row.len() == 1 && row[0].is_empty() {
            row[0] = "*".into();
        }
    }
    if !right.is_empty() && rng.chance(0.04) {
        // a feature string longer than the 4096-byte buffer of the CSV reader; a multi-byte character lies across
        // the 4096th byte
        let i = rng.below(right.len());
        if !right[i].is_empty() {
            right[i][0] = format!("{}{}", ["LL", "L", "LLLL"][rng.below(3)], "あ".repeat(1400 + rng.below(50)));
        }
    }
    if !right.is_empty() && !left.is_empty() && rng.chance(0.8) {
        // make sure at least one row on each side has full length
        let i = rng.below(right.len());
        while right[i].len() < k {
            right[i].push("p0".into());
        }
        let j = rng.below(left.len());
        while left[j].len() < k {
            left[j].push("q1".into());
        }
    } else if !right.is_empty() && !left.is_empty() && k >= 2 && rng.chance(0.6) {
        // ragged model: every row of one file is shorter than the longest row of the other file
        let short = 1 + rng.below(k - 1);
        let (a, b) = if rng.chance(0.5) { (&mut right, &mut left) } else { (&mut left, &mut right) };
        for row in a.iter_mut() {
            row.truncate(short);
            if row.len() == 1 && row[0].is_empty() {
                row[0] = "*".into();
            }
        }
        let j = rng.below(b.len());
        while b[j].len() < k {
            let f = format!("q{}", b[j].len() % 4);
            b[j].push(f);
        }
    }
    // cost table over features that occur (and some that do not)
    let mut costs: Vec<(String, String, i32)> = vec![];
    let mut seen = std::collections::HashSet::new();
    let bound = (32767 / (k as i64).max(1)).min(3000); // keeps every partial sum within i16 (C07 precondition)
    let mut rfeats: Vec<String> = right.iter().flatten().filter(|s| *s != "*").cloned().collect();
    let mut lfeats: Vec<String> = left.iter().flatten().filter(|s| *s != "*").cloned().collect();
    rfeats.push(String::new());
    lfeats.push(String::new());
    rfeats.push("never".into());
    lfeats.push("never".into());
    let n = if rng.chance(0.3) { rng.below(4) } else { rng.below(40) + 5 };
    for _ in 0..n {
        let a = rng.pick(&rfeats).clone();
        let b = rng.pick(&lfeats).clone();
        if a.contains('/') || b.contains('/') || a == "*" || b == "*" {
            continue;
        }
        if !seen.insert((a.clone(), b.clone())) {
            continue;
        }
        let c = if rng.chance(0.1) { 0 } else { rng.range(-bound, bound) as i32 };
        costs.push((a, b, c));
    }
    if let Some(long) = rfeats.iter().find(|f| f.len() > 4000) {
        // the long feature takes part in the sums
        for b in lfeats.iter().take(3) {
            if !b.contains('/') && b != "*" && seen.insert((long.clone(), b.clone())) {
                costs.push((long.clone(), b.clone(), (bound / 2) as i32 + 1));
            }
        }
    }
    Conn::Bigram { right, left, costs, dual }
}

pub fn gen_conn(rng: &mut Rng, cfg: &GenCfg) -> Conn {
    let nr = 1 + rng.below(cfg.max_ids);
    let nl = 1 + rng.below(cfg.max_ids);
    let kind = if cfg.conn_kind == 3 { [0u8, 0, 1, 2][rng.below(4)] } else { cfg.conn_kind };
    if kind == 0 {
        let cells: Vec<i16> = (0..nr * nl)
            .map(|_| {
                if cfg.tie_heavy {
                    [0i16, 0, 1][rng.below(3)]
                } else {
                    match rng.below(10) {
                        0 => i16::MAX,
                        1 => i16::MIN,
                        2 => 0,
                        _ => rng.range(-2000, 2000) as i16,
                    }
                }
            })
            .collect();
        Conn::Matrix { nr, nl, cells }
    } else {
        gen_bigram(rng, nr.max(2), nl.max(2), kind == 2, None)
    }
}

/// Turns a matrix connector with `nr` right ids into one with `nr + 4096` and moves about half of the rows to
/// the id 4096 above theirs (new columns get their own costs): ids that agree modulo 4096 (and in their low
/// 12 bits) then occur together, as they do in dictionaries of realistic size.
pub fn widen_right_ids(rng: &mut Rng, spec: &mut DictSpec, user: Option<&mut Vec<LexRow>>) -> bool {
    let (nr, nl, old) = match &spec.conn {
        Conn::Matrix { nr, nl, cells } => (*nr, *nl, cells.clone()),
        _ => return false,
    };
    let nr2 = nr + 4096;
    let mut cells = vec![0i16; nr2 * nl];
    for l in 0..nl {
        for r in 0..nr2 {
            cells[l * nr2 + r] = if r < nr { old[l * nr + r] } else { rng.range(-2000, 2000) as i16 };
        }
    }
    spec.conn = Conn::Matrix { nr: nr2, nl, cells };
    for row in spec.lex.iter_mut() {
        if rng.chance(0.5) {
            row.r += 4096;
        }
    }
    for row in spec.unk.iter_mut() {
        if rng.chance(0.5) {
            row.r += 4096;
        }
    }
    if let Some(u) = user {
        for row in u.iter_mut() {
            if rng.chance(0.5) {
                row.r += 4096;
            }
        }
    }
    true
}

pub fn gen_dict(rng: &mut Rng, cfg: &GenCfg) -> DictSpec {
    // now and then a dictionary around the 18-category limit of the packed character information
    // (ids >= 18 assigned to characters must be rejected by the builder)
    let many = cfg.max_cats >= 6 && !cfg.clean_space && rng.chance(0.02);
    let ncat = if many { 16 + rng.below(4) } else { rng.below(cfg.max_cats) };
    let mut cats = vec![Cat { name: "DEFAULT".into(), invoke: rng.chance(0.5), group: rng.chance(0.5), length: rng.below(4) as u16 }];
    for i in 0..ncat {
        cats.push(Cat { name: CAT_NAMES[i].into(), invoke: rng.chance(0.5), group: rng.chance(0.5), length: if rng.chance(0.1) { 15 } else { rng.below(5) as u16 } });
    }
    let has_space = cats.len() > 1;
    let mut def_order: Vec<usize> = (0..cats.len()).collect();
    if rng.chance(0.3) {
        rng.shuffle(&mut def_order);
    }
    let mut ranges: Vec<Range> = vec![];
    let nrng = rng.below(9);
    for _ in 0..nrng {
        let c = *rng.pick(ALPHA) as u32;
        if c > 0xFFFF {
            continue;
        }
        let mut lo = c.saturating_sub(rng.below(3) as u32);
        let mut hi = (c + rng.below(3) as u32).min(0xFFFF);
        if rng.chance(0.1) {
            lo = c.saturating_sub(0x40);
            hi = (c + 0x40).min(0xFFFF);
        }
        if rng.chance(0.04) {
            // a range reaching the last BMP code point
            lo = 0xFFF0 + rng.below(16) as u32;
            hi = 0xFFFF;
        }
        if !cfg.allow_u0000_range {
            lo = lo.max(1);
        }
        let avail: Vec<usize> = (0..cats.len()).filter(|&k| !(cfg.clean_space && k == 1)).collect();
        let mut cs: Vec<usize> = vec![];
        if many && rng.chance(0.7) {
            cs.push(cats.len() - 1 - rng.below(3.min(cats.len() - 1)));
        }
        for _ in 0..1 + rng.below(3) {
            let k = *rng.pick(&avail);
            if !cs.contains(&k) {
                cs.push(k);
            }
        }
        if cfg.clean_space && (lo..=hi).any(|x| x == 0x20 || x == 0x3000) {
            continue;
        }
        ranges.push(Range { lo, hi, cats: cs });
    }
    if has_space && (cfg.clean_space || rng.chance(0.6)) {
        // SPACE lines last so that they win
        ranges.push(Range { lo: 0x20, hi: 0x20, cats: vec![1] });
        ranges.push(Range { lo: 0x3000, hi: 0x3000, cats: vec![1] });
    }
    let conn = gen_conn(rng, cfg);
    let (nr, nl) = conn.dims();
    let mut unk = vec![];
    for i in 0..cats.len() {
        let n = if cfg.covered { 1 + rng.below(3) } else { rng.below(3) };
        for _ in 0..n {
            unk.push(UnkRow { cat: i, l: rng.below(nl) as u16, r: rng.below(nr) as u16, cost: gen_cost(rng, cfg.tie_heavy), feat: gen_feature(rng, "U", unk.len()) });
        }
    }
    if rng.chance(0.05) && !unk.is_empty() {
        // the same unk.def row twice (two candidates, like two identical lex.csv rows)
        let again = unk[rng.below(unk.len())].clone();
        unk.push(again);
    }
    if rng.chance(0.3) {
        rng.shuffle(&mut unk);
    }
    let pool: Vec<char> = surface_pool(cfg.clean_space);
    let nlex = 1 + rng.below(cfg.max_lex);
    let lex = gen_rows(rng, nlex, nl, nr, "L", &pool, cfg.tie_heavy, &[]);
    DictSpec { cats, def_order, ranges, unk, lex, conn }
}

pub fn gen_user(rng: &mut Rng, spec: &DictSpec, cfg: &GenCfg) -> Vec<LexRow> {
    let (nr, nl) = spec.conn.dims();
    let pool: Vec<char> = surface_pool(cfg.clean_space);
    let n = 1 + rng.below(5);
    gen_rows(rng, n, nl, nr, "V", &pool, cfg.tie_heavy, &spec.lex)
}

pub fn gen_opts(rng: &mut Rng, spec: &DictSpec) -> Opts {
    let has_space = spec.cat_index("SPACE").is_some();
    Opts { ignore_space: has_space && rng.chance(0.5), mgl: if rng.chance(0.5) { 0 } else { [1usize, 2, 3, 4, 24][rng.below(5)] } }
}

pub fn gen_sentence(rng: &mut Rng, spec: &DictSpec, user: Option<&[LexRow]>) -> String {
    match rng.below(10) {
        0 => String::new(),
        1 | 2 => {
            // concatenation of lexicon surfaces (many competing paths)
            let mut s = String::new();
            for _ in 0..1 + rng.below(4) {
                let rows: &[LexRow] = match user {
                    Some(u) if rng.chance(0.4) && !u.is_empty() => u,
                    _ => &spec.lex,
                };
                s += &rows[rng.below(rows.len())].surface;
                if rng.chance(0.2) {
                    s.push(*rng.pick(ALPHA));
                }
            }
            s
        }
        3 => {
            // long same-character run (grouping)
            let c = *rng.pick(ALPHA);
            let n = 1 + rng.below(8);
            let mut s: String = std::iter::repeat(c).take(n).collect();
            if rng.chance(0.5) {
                s.push(*rng.pick(ALPHA));
            }
            s
        }
        4 => {
            // characters next to range borders
            let mut s = String::new();
            for _ in 0..1 + rng.below(5) {
                if !spec.ranges.is_empty() && rng.chance(0.7) {
                    let r = rng.pick(&spec.ranges);
                    let c = match rng.below(6) {
                        0 => r.lo.saturating_sub(1),
                        1 => r.lo,
                        2 => r.hi,
                        3 => r.hi + 1,
                        // astral characters whose low 16 bits equal a covered BMP code point
                        4 => 0x10000 + r.lo,
                        _ => 0x10000 * (1 + rng.below(16) as u32) + r.hi,
                    };
                    if let Some(ch) = char::from_u32(c) {
                        if ch != '\0' && ch != '\n' && ch != '\r' && ch != '\t' {
                            s.push(ch);
                        }
                    }
                } else {
                    s.push(*rng.pick(ALPHA));
                }
            }
            s
        }
        5 => {
            // spaces at all three positions
            let mut s = String::new();
            let sp = |rng: &mut Rng| -> String { (0..rng.below(3)).map(|_| if rng.chance(0.7) { ' ' } else { '\u{3000}' }).collect() };
            s += &sp(rng);
            for _ in 0..rng.below(4) {
                s.push(*rng.pick(ALPHA));
                if rng.chance(0.5) {
                    s += &sp(rng);
                }
            }
            s += &sp(rng);
            s
        }
        _ => {
            let len = rng.below(12);
            (0..len).map(|_| if rng.chance(0.7) { ALPHA[rng.below(8)] } else { *rng.pick(ALPHA) }).collect()
        }
    }
}

pub fn gen_perm_ids(rng: &mut Rng, n: usize) -> Vec<usize> {
    // permutation of 0..n with 0 fixed
    let mut v = vec![0usize];
    let mut rest: Vec<usize> = (1..n).collect();
    rng.shuffle(&mut rest);
    v.extend(rest);
    v
}
