TEXT = {
    "C01": {
        "technique": "runtime monitor: partition oracle over tokens of generated dictionaries x strings; debug-assertion and ASan flavours",
        "level": "Sampled exploration: ~10^6 (quick) to ~10^7 (thorough) tokenizations of generated dictionaries (all connector kinds, user lexicon, id mapping, write/read) are each judged by a partition checker written from the statement; panics/aborts are attributed to cases. Held on the executions observed, nothing is claimed about inputs the generators do not produce.",
        "note": "Trusts the harness's reference character table and the generator's rows as ground truth; termination observed up to a watchdog. The uncovered-category panic is a listed known finding.",
    },
    "C02": {
        "technique": "runtime monitor: independent i64 Viterbi DP over the hooked lattice dump + black-box optimum over reference candidates",
        "level": "Sampled exploration: every non-empty tokenization is re-derived by an independent DP over the dumped lattice (every node's recurrence, EOS, back-pointers, prefix sums) and compared with the reference optimum; tie-heavy, negative-cost and EOS-decides dictionaries are required coverage.",
        "note": "Connection costs come from the generator's description; costs within i32 as the property states. >= 65536 nodes per boundary is a listed known finding.",
    },
    "C03": {
        "technique": "runtime monitor: candidate multiset per lattice position vs reference MeCab unknown-word/prefix rule; char-table hook vs reference table",
        "level": "Sampled exploration with required branch coverage of the unknown-word rule (invoke/group/length/max_grouping_len/fallback/multi-category/astral); thorough compares the whole BMP character table.",
        "note": "With ignore_space the full comparison is restricted to dictionaries meeting C12's precondition. Astral characters with a range covering U+0000 are a listed known finding.",
    },
    "C04": {
        "technique": "runtime monitor: operation histories vs fresh-worker model; concurrent workers vs sequential results under ThreadSanitizer (and Miri many-seeds in thorough)",
        "level": "Sampled exploration of histories (reset/tokenize x0-3/counter ops, few distinct sentences so reused buffers are exercised) and of thread interleavings (2-16 workers on one Tokenizer, seeded yields, overlap measured by tickets); TSan flags any data race, Miri (thorough) any UB/race on 8 schedules of a tiny dictionary.",
        "note": "Interleavings are sampled, not enumerated; workers share no mutable state by construction, so the sanitizer layer is a tripwire for future unsafe/interior mutability.",
    },
    "C06": {
        "technique": "runtime monitor: permutation algebra on real connectors (all id pairs) + before/after tokenization over operation histories; outcome classifier for malformed mappings",
        "level": "Sampled exploration of dictionaries x permutation pairs x operation orders (map, map again, user lexicon before/after, write/read); all id pairs of each case are compared.",
        "note": "Tokens are compared exactly only when the reference optimum is unique; otherwise by cost.",
    },
    "C08": {
        "technique": "runtime monitor: observational equivalence between real dictionaries (history vs final lexicon alone vs extended system lexicon) on tokens and hooked candidate multisets; outcome classifier for invalid CSVs; ASan for the no-out-of-range-lookup clause",
        "level": "Sampled exploration of user CSVs x load/replace/clear histories on mapped and unmapped dictionaries of all connector kinds.",
        "note": "Equivalence with the extended system lexicon is judged on candidate multisets modulo lexicon type and on optimal cost (tie-breaking may differ).",
    },
    "C12": {
        "technique": "runtime monitor: metamorphic relation over re-spaced variants + reference skip rule",
        "level": "Sampled exploration of precondition-meeting dictionaries x sentences x 8 re-spacings each.",
        "note": "Exact token equality is demanded only when the reference optimum is unique.",
    },
}
NOT_APPLICABLE = []
