//! splitmix64 PRNG. Every case derives its own generator from (seed, property, shard, index),
//! so a case can be regenerated alone for replay.

#[derive(Clone)]
pub struct Rng(pub u64);

pub fn mix(mut z: u64) -> u64 {
    z = (z ^ (z >> 30)).wrapping_mul(0xBF58476D1CE4E5B9);
    z = (z ^ (z >> 27)).wrapping_mul(0x94D049BB133111EB);
    z ^ (z >> 31)
}

pub fn hash_bytes(b: &[u8]) -> u64 {
    // FNV-1a then mixed; only used to count distinct cases.
    let mut h: u64 = 0xcbf29ce484222325;
    for &x in b {
        h ^= x as u64;
        h = h.wrapping_mul(0x100000001b3);
    }
    mix(h)
}

impl Rng {
    pub fn for_case(seed: u64, prop: &str, shard: u64, index: u64) -> Rng {
        let mut h = mix(seed.wrapping_add(0x9E3779B97F4A7C15));
        h = mix(h ^ hash_bytes(prop.as_bytes()));
        h = mix(h ^ shard.wrapping_mul(0xD6E8FEB86659FD93));
        h = mix(h ^ index.wrapping_mul(0xA24BAED4963EE407));
        Rng(h)
    }
    pub fn next(&mut self) -> u64 {
        self.0 = self.0.wrapping_add(0x9E3779B97F4A7C15);
        mix(self.0)
    }
    /// uniform in 0..n (n > 0)
    pub fn below(&mut self, n: usize) -> usize {
        (self.next() % n as u64) as usize
    }
    /// uniform in lo..=hi
    pub fn range(&mut self, lo: i64, hi: i64) -> i64 {
        lo + (self.next() % ((hi - lo + 1) as u64)) as i64
    }
    pub fn chance(&mut self, p: f64) -> bool {
        ((self.next() >> 11) as f64 / (1u64 << 53) as f64) < p
    }
    pub fn pick<'a, T>(&mut self, xs: &'a [T]) -> &'a T {
        &xs[self.below(xs.len())]
    }
    pub fn shuffle<T>(&mut self, xs: &mut [T]) {
        for i in (1..xs.len()).rev() {
            let j = self.below(i + 1);
            xs.swap(i, j);
        }
    }
    pub fn perm(&mut self, n: usize) -> Vec<usize> {
        let mut v: Vec<usize> = (0..n).collect();
        self.shuffle(&mut v);
        v
    }
}
