#!/bin/bash
# Re-runs every stored seeded change against the quick check of its property (regression test of the
# framework itself). Touches /repo's working tree (apply / checkout) - do not run while other checks run.
# usage: selftest_seeds.sh [pattern]        e.g. selftest_seeds.sh C07
cd /verif/seeded || exit 2
for d in */; do
  n=${d%/}
  [[ -n "$1" && "$n" != *$1* ]] && continue
  # (the san-* changes have no behavioural effect; they validate the sanitizer stages, see DESIGN.md 7.13)
  [[ "$n" == san-* ]] && continue
  # (changes kept as a record although they violate no stated property are skipped)
  python3 -c "import json,sys;m=json.load(open('$n/meta.json'));sys.exit(0 if m['detection']['result'].startswith('NOT A VIOLATION') else 1)" && { echo "$n SKIPPED (not a violation of a stated property)"; continue; }
  props=$(python3 -c "import json;m=json.load(open('$n/meta.json'));print(m['detection']['command'].split('<patch.diff>')[1].strip())")
  for p in $props; do
    r=$(/verif/tools/seedtest.sh /verif/seeded/$n/patch.diff $p 2>&1 | tail -1)
    echo "$n $r" | cut -c1-160
  done
done
