TEXT = {
    "C01": {
        "technique": "runtime monitor: partition oracle over tokens of generated dictionaries x strings; debug-assertion and ASan flavours",
        "level": "Sampled exploration: ~10^6 (quick) to ~10^7 (thorough) tokenizations of generated dictionaries (all connector kinds, user lexicon, id mapping, write/read) are each judged by a partition checker written from the statement; panics/aborts are attributed to cases. Held on the executions observed, nothing is claimed about inputs the generators do not produce.",
        "note": "Trusts the harness's reference character table and the generator's rows as ground truth; termination observed up to a watchdog. The uncovered-category panic is a listed known finding.",
    },
    "C02": {
        "technique": "runtime monitor: independent i64 Viterbi DP over the hooked lattice dump + black-box optimum over reference candidates",
        "level": "Sampled exploration: every non-empty tokenization is re-derived by an independent DP over the dumped lattice (every node's recurrence, EOS, back-pointers, prefix sums) and compared with the reference optimum; tie-heavy, negative-cost and EOS-decides dictionaries are required coverage.",
        "note": "Connection costs come from the generator's description; costs within i32 as the property states. >= 65536 nodes per boundary is a listed known finding.",
    },
    "C03": {
        "technique": "runtime monitor: candidate multiset per lattice position vs reference MeCab unknown-word/prefix rule; char-table hook vs reference table",
        "level": "Sampled exploration with required branch coverage of the unknown-word rule (invoke/group/length/max_grouping_len/fallback/multi-category/astral); thorough compares the whole BMP character table.",
        "note": "With ignore_space the full comparison is restricted to dictionaries meeting C12's precondition. Astral characters with a range covering U+0000 are a listed known finding.",
    },
}
NOT_APPLICABLE = []
