//! Thin wrappers around the real code: building dictionaries from a spec, tokenizing under
//! catch_unwind, reading tokens through the public accessors.
use crate::model::*;
use serde::Serialize;
use std::cell::RefCell;
use std::panic::{catch_unwind, AssertUnwindSafe};
use vibrato::dictionary::{Dictionary, LexType, SystemDictionaryBuilder};
use vibrato::tokenizer::worker::Worker;
use vibrato::Tokenizer;

thread_local! {
    static LAST_PANIC: RefCell<String> = RefCell::new(String::new());
}

pub fn install_panic_hook() {
    std::panic::set_hook(Box::new(|info| {
        let loc = info.location().map(|l| format!("{}:{}", l.file(), l.line())).unwrap_or_default();
        let msg = if let Some(s) = info.payload().downcast_ref::<&str>() {
            s.to_string()
        } else if let Some(s) = info.payload().downcast_ref::<String>() {
            s.clone()
        } else {
            "?".to_string()
        };
        LAST_PANIC.with(|p| *p.borrow_mut() = format!("{} @ {}", msg, loc));
    }));
}

/// Runs `f`, turning a panic into Err(message @ location).
pub fn guarded<T>(f: impl FnOnce() -> T) -> Result<T, String> {
    match catch_unwind(AssertUnwindSafe(f)) {
        Ok(v) => Ok(v),
        Err(_) => Err(LAST_PANIC.with(|p| p.borrow().clone())),
    }
}

/// Short, line-number-free class of a panic message (for known-finding signatures).
pub fn panic_class(msg: &str) -> String {
    let m = msg.to_lowercase();
    let site = msg.rsplit(" @ ").next().unwrap_or("");
    let file = site.rsplit('/').next().unwrap_or("").split(':').next().unwrap_or("");
    let kind = if m.contains("index out of bounds") {
        "index-out-of-bounds"
    } else if m.contains("out of range for slice") || m.contains("slice index") {
        "slice-index"
    } else if m.contains("overflow") {
        "arithmetic-overflow"
    } else if m.contains("unwrap") && m.contains("none") {
        "unwrap-none"
    } else if m.contains("assertion") {
        "assertion"
    } else if m.contains("capacity overflow") {
        "capacity-overflow"
    } else if m.contains("divide by zero") || m.contains("division") {
        "div-zero"
    } else {
        "other"
    };
    format!("panic:{}:{}", kind, file)
}

pub enum BuildOutcome {
    Ok(Dictionary),
    Err(String),
    Panic(String),
}

pub fn build_from_texts(lex: &[u8], char_def: &[u8], unk_def: &[u8], conn: &ConnTexts) -> BuildOutcome {
    let r = guarded(|| match conn {
        ConnTexts::Matrix(m) => SystemDictionaryBuilder::from_readers(lex, m.as_slice(), char_def, unk_def),
        ConnTexts::Bigram { right, left, cost, dual } => SystemDictionaryBuilder::from_readers_with_bigram_info(
            lex,
            right.as_slice(),
            left.as_slice(),
            cost.as_slice(),
            char_def,
            unk_def,
            *dual,
        ),
    });
    match r {
        Ok(Ok(d)) => BuildOutcome::Ok(d),
        Ok(Err(e)) => BuildOutcome::Err(e.to_string()),
        Err(p) => BuildOutcome::Panic(p),
    }
}

#[derive(Clone, Debug)]
pub enum ConnTexts {
    Matrix(Vec<u8>),
    Bigram { right: Vec<u8>, left: Vec<u8>, cost: Vec<u8>, dual: bool },
}

pub fn conn_texts(conn: &Conn) -> ConnTexts {
    match conn {
        Conn::Matrix { .. } => ConnTexts::Matrix(conn.matrix_def(false).into_bytes()),
        Conn::Bigram { dual, .. } => {
            let (r, l, c) = conn.bigram_texts();
            ConnTexts::Bigram { right: r.into_bytes(), left: l.into_bytes(), cost: c.into_bytes(), dual: *dual }
        }
    }
}

pub fn build_spec(spec: &DictSpec) -> BuildOutcome {
    build_from_texts(spec.lex_csv().as_bytes(), spec.char_def().as_bytes(), spec.unk_def().as_bytes(), &conn_texts(&spec.conn))
}

pub fn load_user(d: Dictionary, rows: Option<&[LexRow]>) -> Result<Result<Dictionary, String>, String> {
    guarded(move || match rows {
        Some(rows) => d.reset_user_lexicon_from_reader(Some(lex_csv(rows).as_bytes())).map_err(|e| e.to_string()),
        None => d.reset_user_lexicon_from_reader(None::<&[u8]>).map_err(|e| e.to_string()),
    })
}

pub fn write_dict(d: &Dictionary) -> Result<(Vec<u8>, usize), String> {
    let mut buf = vec![];
    match guarded(|| d.write(&mut buf)) {
        Ok(Ok(n)) => Ok((buf, n)),
        Ok(Err(e)) => Err(format!("write error: {e}")),
        Err(p) => Err(format!("write panic: {p}")),
    }
}

pub fn read_dict(bytes: &[u8]) -> Result<Result<Dictionary, String>, String> {
    guarded(|| Dictionary::read(bytes).map_err(|e| e.to_string()))
}

pub fn make_tokenizer(d: Dictionary, opts: Opts) -> Result<Tokenizer, String> {
    make_tokenizer_hist(d, opts, false)
}

/// The options are setters: the last call decides. Half of the time (decided by the options themselves, so that
/// every run of the same case does the same) the opposite values are set first. `ignore_space(true)` as a
/// first call is only made when the caller knows that SPACE is defined (it is an error otherwise, by contract).
pub fn make_tokenizer_hist(d: Dictionary, opts: Opts, space_defined: bool) -> Result<Tokenizer, String> {
    let history = (opts.mgl + opts.ignore_space as usize) % 2 == 1;
    match guarded(move || {
        let mut t = Tokenizer::new(d);
        if history {
            t = t.max_grouping_len(if opts.mgl == 0 { 3 } else { 0 });
            if opts.ignore_space {
                t = t.ignore_space(false).map_err(|e| e.to_string())?;
            } else if space_defined {
                t = t.ignore_space(true).map_err(|e| e.to_string())?;
            }
        }
        // the two options are independent: they are set in either order
        if opts.mgl % 3 == 1 {
            t.max_grouping_len(opts.mgl).ignore_space(opts.ignore_space).map_err(|e| e.to_string())
        } else {
            t.ignore_space(opts.ignore_space).map(|t| t.max_grouping_len(opts.mgl)).map_err(|e| e.to_string())
        }
    }) {
        Ok(Ok(t)) => Ok(t),
        Ok(Err(e)) => Err(format!("ignore_space error: {e}")),
        Err(p) => Err(format!("panic: {p}")),
    }
}

#[derive(Clone, Debug, PartialEq, Eq, Serialize, Hash)]
pub struct Tok {
    pub cs: usize,
    pub ce: usize,
    pub bs: usize,
    pub be: usize,
    pub surface: String,
    pub feat: String,
    /// 0 system, 1 user, 2 unknown
    pub lex: u8,
    pub word_id: u32,
    pub l: u16,
    pub r: u16,
    pub wcost: i16,
    pub total: i32,
}

pub fn lex_code(t: LexType) -> u8 {
    match t {
        LexType::System => 0,
        LexType::User => 1,
        LexType::Unknown => 2,
    }
}

/// Reads the tokens of a worker through token(i).
pub fn read_tokens(w: &Worker) -> Vec<Tok> {
    let mut v = Vec::with_capacity(w.num_tokens());
    for i in 0..w.num_tokens() {
        let t = w.token(i);
        let rc = t.range_char();
        let rb = t.range_byte();
        v.push(Tok {
            cs: rc.start,
            ce: rc.end,
            bs: rb.start,
            be: rb.end,
            surface: t.surface().to_string(),
            feat: t.feature().to_string(),
            lex: lex_code(t.lex_type()),
            word_id: t.word_idx().word_id,
            l: t.left_id(),
            r: t.right_id(),
            wcost: t.word_cost(),
            total: t.total_cost(),
        });
    }
    v
}

/// reset_sentence + tokenize + read, under catch_unwind.
pub fn tokenize(w: &mut Worker, s: &str) -> Result<Vec<Tok>, String> {
    guarded(|| {
        w.reset_sentence(s);
        w.tokenize();
        read_tokens(w)
    })
}

pub fn toks_brief(t: &[Tok]) -> Vec<String> {
    t.iter().map(|t| format!("{}..{}:{}|{}|k{}#{}|l{} r{} w{} t{}", t.cs, t.ce, t.surface, t.feat, t.lex, t.word_id, t.l, t.r, t.wcost, t.total)).collect()
}

/// Per-thread panic state is a thread-local; nothing to set up (kept for symmetry).
pub fn install_thread_panic_state() {}
