//! Thorough-tier pipelines through the repository's real binaries:
//! C13: compile -> reorder -> map -> tokenize;  C15: train -> dictgen (twice, in separate processes).
use crate::gen::*;
use crate::model::*;
use crate::real::*;
use crate::report::Ctx;
use crate::rng::{hash_bytes, Rng};
use crate::tokprops::*;
use crate::trainprops::{gen_trainset, generate, train, Files};
use serde_json::json;
use std::process::{Command, Stdio};

fn cli_dir() -> Option<String> {
    std::env::var("VERIF_CLI_DIR").ok().filter(|s| !s.is_empty())
}

fn run_ok(cmd: &mut Command) -> bool {
    cmd.stdout(Stdio::null()).stderr(Stdio::null()).status().map_or(false, |s| s.success())
}

fn write_conn_files(dir: &str, conn: &ConnTexts, cmd: &mut Command) {
    match conn {
        ConnTexts::Matrix(m) => {
            let _ = std::fs::write(format!("{dir}/matrix.def"), m);
            cmd.args(["-m", &format!("{dir}/matrix.def")]);
        }
        ConnTexts::Bigram { right, left, cost, dual } => {
            let _ = std::fs::write(format!("{dir}/bigram.right"), right);
            let _ = std::fs::write(format!("{dir}/bigram.left"), left);
            let _ = std::fs::write(format!("{dir}/bigram.cost"), cost);
            cmd.args(["--bigram-right-in", &format!("{dir}/bigram.right"), "--bigram-left-in", &format!("{dir}/bigram.left"), "--bigram-cost-in", &format!("{dir}/bigram.cost")]);
            if *dual {
                cmd.arg("--dual-connector");
            }
        }
    }
}

/// `tokenize -O detail` output -> per line: (surfaces joined by '|', features, last total_cost)
fn parse_detail(out: &[u8]) -> Vec<(String, Option<i64>)> {
    let text = String::from_utf8_lossy(out);
    let mut res = vec![];
    let mut cur = String::new();
    let mut last: Option<i64> = None;
    for line in text.lines() {
        if line == "EOS" {
            res.push((std::mem::take(&mut cur), last.take()));
            continue;
        }
        let cols: Vec<&str> = line.split('\t').collect();
        if cols.len() >= 7 {
            cur += cols[0];
            cur.push('|');
            cur += cols[1];
            cur.push('|');
            last = cols.last().and_then(|c| c.strip_prefix("total_cost=")).and_then(|c| c.parse().ok());
        }
    }
    res
}

pub fn c13_cli(ctx: &mut Ctx, rng: &mut Rng, xdir: &str) {
    let cli = match cli_dir() {
        Some(c) => c,
        None => return,
    };
    let cfg = GenCfg { covered: true, max_ids: 7, ..Default::default() };
    let mut case = gen_tokcase(rng, &cfg, 20, false);
    case.user = None;
    case.mapping = None;
    let dir = format!("{xdir}/c13cli-{}-{}", ctx.shard, ctx.index);
    let _ = std::fs::create_dir_all(&dir);
    let spec = &case.spec;
    let _ = std::fs::write(format!("{dir}/lex.csv"), spec.lex_csv());
    let _ = std::fs::write(format!("{dir}/char.def"), spec.char_def());
    let _ = std::fs::write(format!("{dir}/unk.def"), spec.unk_def());
    let mut c = Command::new(format!("{cli}/compile"));
    c.args(["-l", &format!("{dir}/lex.csv"), "-c", &format!("{dir}/char.def"), "-u", &format!("{dir}/unk.def"), "-o", &format!("{dir}/sys.dic.zst")]);
    write_conn_files(&dir, &conn_texts(&spec.conn), &mut c);
    if !run_ok(&mut c) {
        ctx.bucket("cli_compile_failed");
        return;
    }
    // training lines for reorder: includes empty lines, an empty first line, repeats, no trailing newline issues
    let mut lines: Vec<String> = vec![];
    if rng.chance(0.3) {
        lines.push(String::new());
    }
    for _ in 0..rng.below(12) {
        let s = case.sentences[rng.below(case.sentences.len())].replace(['\t', '\n', '\r'], "");
        lines.push(s);
        if rng.chance(0.2) {
            lines.push(String::new());
        }
    }
    let input = if lines.is_empty() { String::new() } else { lines.join("\n") + "\n" };
    let _ = std::fs::write(format!("{dir}/train.txt"), &input);
    let cj = |d: String| json!({"files": case.texts(), "reorder_input": input, "detail": d});
    ctx.eval();
    let mut r = Command::new(format!("{cli}/reorder"));
    r.args(["-i", &format!("{dir}/sys.dic.zst"), "-o", &format!("{dir}/map")]).stdin(std::fs::File::open(format!("{dir}/train.txt")).unwrap());
    if !run_ok(&mut r) {
        ctx.violation("reorder_cli_failed", "C13:cli:reorder_failed", "the reorder tool did not exit successfully (panic or error)".into(), cj(String::new()));
        let _ = std::fs::remove_dir_all(&dir);
        return;
    }
    // the same statistics in-process
    let d = match build_spec(spec) {
        BuildOutcome::Ok(d) => d,
        _ => return,
    };
    let tok = vibrato::Tokenizer::new(d);
    let mut w = tok.new_worker();
    w.init_connid_counter();
    for l in &lines {
        if guarded(|| {
            w.reset_sentence(l);
            w.tokenize();
            w.update_connid_counts();
        })
        .is_err()
        {
            ctx.note("in-process counting panicked (C13 main stage's business)".into());
            let _ = std::fs::remove_dir_all(&dir);
            return;
        }
    }
    let (lp, rp) = w.compute_connid_probs();
    for (ext, probs) in [("lmap", &lp), ("rmap", &rp)] {
        let txt = std::fs::read_to_string(format!("{dir}/map.{ext}")).unwrap_or_default();
        let ids: Vec<usize> = txt.lines().filter_map(|l| l.split('\t').next().and_then(|x| x.parse().ok())).collect();
        let want: Vec<usize> = probs.iter().map(|x| x.0).collect();
        if ids != want {
            ctx.violation("reorder_output_differs_from_library_statistics", "C13:cli:reorder_output_differs", format!("map.{ext} lists {:?}, compute_connid_probs gives {:?}", ids, want), cj(String::new()));
            let _ = std::fs::remove_dir_all(&dir);
            return;
        }
    }
    let mut m = Command::new(format!("{cli}/map"));
    m.args(["-i", &format!("{dir}/sys.dic.zst"), "-m", &format!("{dir}/map"), "-o", &format!("{dir}/mapped.dic.zst")]);
    if !run_ok(&mut m) {
        ctx.violation("reorder_output_rejected_by_map", "C13:cli:map_failed", "the map tool rejected the mapping written by reorder".into(), cj(String::new()));
        let _ = std::fs::remove_dir_all(&dir);
        return;
    }
    let sent_in = case.sentences.iter().map(|s| s.replace(['\t', '\n', '\r'], "")).collect::<Vec<_>>().join("\n") + "\n";
    let _ = std::fs::write(format!("{dir}/sent.txt"), &sent_in);
    let tokenize = |dic: &str| -> Option<Vec<u8>> {
        let out = Command::new(format!("{cli}/tokenize")).args(["-i", &format!("{dir}/{dic}"), "-O", "detail"]).stdin(std::fs::File::open(format!("{dir}/sent.txt")).ok()?).stderr(Stdio::null()).output().ok()?;
        if out.status.success() {
            Some(out.stdout)
        } else {
            None
        }
    };
    match (tokenize("sys.dic.zst"), tokenize("mapped.dic.zst")) {
        (Some(a), Some(b)) => {
            let (pa, pb) = (parse_detail(&a), parse_detail(&b));
            // total costs must agree line by line; tokens too unless several optimal paths exist
            let refd = RefDict::new(spec, None);
            for (i, (x, y)) in pa.iter().zip(&pb).enumerate() {
                let chars: Vec<char> = case.sentences.get(i).map(|s| s.chars().collect()).unwrap_or_default();
                let unique = refd.analyze(&chars, Opts { ignore_space: false, mgl: 0 }).n_opt == 1;
                if x.1 != y.1 || (unique && x.0 != y.0) {
                    ctx.violation("mapped_dictionary_tokenizes_differently", "C13:cli:mapped_tokenizes_differently", format!("line {i}: original {:?}, mapped {:?}", x, y), cj(String::new()));
                    let _ = std::fs::remove_dir_all(&dir);
                    return;
                }
            }
            if pa.len() != pb.len() {
                ctx.violation("mapped_dictionary_tokenizes_differently", "C13:cli:mapped_tokenizes_differently", format!("{} vs {} sentences", pa.len(), pb.len()), cj(String::new()));
            } else {
                ctx.bucket("cli_pipeline_compile_reorder_map_tokenize");
                ctx.total("cli_sentences_compared", pa.len() as u64);
                ctx.distinct(hash_bytes(&a) ^ hash_bytes(input.as_bytes()));
                if lines.iter().any(|l| l.is_empty()) {
                    ctx.bucket("cli_reorder_input_with_empty_line");
                }
                if ctx.want_sample() {
                    ctx.sample(json!({"pipeline": "compile -> reorder (stdin lines) -> map -> tokenize -O detail", "reorder_input_lines": lines.len(), "lmap": lp.iter().map(|x| x.0).collect::<Vec<_>>(), "sentences_compared": pa.len()}));
                }
            }
        }
        _ => ctx.violation("tokenize_cli_failed_on_mapped_dictionary", "C13:cli:tokenize_failed", "tokenize failed on the original or the mapped dictionary".into(), cj(String::new())),
    }
    let _ = std::fs::remove_dir_all(&dir);
}

pub fn c15_cli(ctx: &mut Ctx, rng: &mut Rng, xdir: &str) {
    let cli = match cli_dir() {
        Some(c) => c,
        None => return,
    };
    let ts = gen_trainset(rng);
    let dir = format!("{xdir}/c15cli-{}-{}", ctx.shard, ctx.index);
    let _ = std::fs::create_dir_all(&dir);
    let w = |n: &str, d: String| std::fs::write(format!("{dir}/{n}"), d).is_ok();
    w("lex.csv", ts.seed_csv());
    w("char.def", ts.char_def());
    w("unk.def", ts.unk_def());
    w("feature.def", ts.feature_def());
    w("rewrite.def", ts.rewrite_def());
    w("corpus.txt", ts.corpus_txt());
    let with_user = !ts.user.is_empty();
    if with_user {
        w("user.csv", ts.user_csv());
    }
    let read = |n: &str| std::fs::read(format!("{dir}/{n}")).unwrap_or_default();
    let mut outs: Vec<Files> = vec![];
    for run in 0..2 {
        let mut t = Command::new(format!("{cli}/train"));
        t.args(["-l", &format!("{dir}/lex.csv"), "-u", &format!("{dir}/unk.def"), "-t", &format!("{dir}/corpus.txt"), "-c", &format!("{dir}/char.def"), "-f", &format!("{dir}/feature.def"), "-r", &format!("{dir}/rewrite.def"), "-o", &format!("{dir}/model{run}.zst"), "--lambda", &ts.lambda.to_string(), "--max-iter", &ts.max_iter.to_string()]);
        if !run_ok(&mut t) {
            ctx.bucket("cli_train_failed");
            let _ = std::fs::remove_dir_all(&dir);
            return;
        }
        let mut g = Command::new(format!("{cli}/dictgen"));
        g.args(["-i", &format!("{dir}/model{run}.zst"), "-l", &format!("{dir}/o{run}.lex"), "-u", &format!("{dir}/o{run}.unk"), "-m", &format!("{dir}/o{run}.matrix"), "--conn-id-info-out", &format!("{dir}/o{run}.bigram")]);
        if with_user {
            g.args(["--user-lexicon-in", &format!("{dir}/user.csv"), "--user-lexicon-out", &format!("{dir}/o{run}.user")]);
        }
        ctx.eval();
        if !run_ok(&mut g) {
            ctx.violation("dictgen_cli_failed", &format!("{}:cli:dictgen_failed", ctx.prop), "dictgen failed on a model written by train".into(), ts.texts());
            let _ = std::fs::remove_dir_all(&dir);
            return;
        }
        outs.push(Files { lex: read(&format!("o{run}.lex")), matrix: read(&format!("o{run}.matrix")), unk: read(&format!("o{run}.unk")), user: read(&format!("o{run}.user")), bleft: read(&format!("o{run}.bigram.left")), bright: read(&format!("o{run}.bigram.right")), bcost: read(&format!("o{run}.bigram.cost")) });
    }
    let sorted = |b: &Vec<u8>| {
        let mut v: Vec<String> = String::from_utf8_lossy(b).lines().map(|s| s.to_string()).collect();
        v.sort();
        v
    };
    let same = |a: &Files, b: &Files| -> Option<&'static str> {
        if a.lex != b.lex {
            return Some("lex.csv");
        }
        if a.matrix != b.matrix {
            return Some("matrix.def");
        }
        if a.unk != b.unk {
            return Some("unk.def");
        }
        if a.user != b.user {
            return Some("user.csv");
        }
        if a.bleft != b.bleft {
            return Some("bigram.left");
        }
        if a.bright != b.bright {
            return Some("bigram.right");
        }
        if sorted(&a.bcost) != sorted(&b.bcost) {
            return Some("bigram.cost");
        }
        None
    };
    if let Some(f) = same(&outs[0], &outs[1]) {
        ctx.violation("train_dictgen_pipeline_not_reproducible", &format!("{}:cli:two_runs_differ", ctx.prop), format!("train + dictgen run twice in separate processes on the same inputs: {f} differs"), ts.texts());
        let _ = std::fs::remove_dir_all(&dir);
        return;
    }
    // the same model trained and generated in-process (write_model/read_model happen inside the CLIs)
    if let Ok(mut m) = train(&ts) {
        if with_user {
            let _ = guarded(|| m.read_user_lexicon(ts.user_csv().as_bytes()).map_err(|e| e.to_string()));
        }
        if let Ok(f) = generate(&mut m) {
            ctx.eval();
            match same(&f, &outs[0]) {
                None => ctx.bucket("cli_files_equal_in_process_files"),
                Some(name) => {
                    ctx.violation("files_generated_by_the_tools_differ_from_in_memory_generation", &format!("{}:cli:differs_from_in_memory", ctx.prop), format!("{name}: train|dictgen (through write_model/read_model) vs train + generate in one process"), ts.texts());
                    let _ = std::fs::remove_dir_all(&dir);
                    return;
                }
            }
        }
    }
    ctx.bucket("cli_pipeline_train_dictgen_twice");
    if with_user {
        ctx.bucket("cli_pipeline_with_user_lexicon_and_conn_id_info");
    }
    ctx.distinct(hash_bytes(&outs[0].lex) ^ hash_bytes(&outs[0].matrix));
    if ctx.want_sample() {
        ctx.sample(json!({"pipeline": "train -> dictgen (x2, separate processes) vs in-process train + generate", "lex_rows": sorted(&outs[0].lex).len(), "with_user_lexicon": with_user}));
    }
    let _ = std::fs::remove_dir_all(&dir);
}
