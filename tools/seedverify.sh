#!/bin/bash
# Confirms a sub-agent's seeded change in a scratch worktree of /repo at HEAD:
#   pristine: demo passes; with the patch: builds, the existing suite passes, demo fails.
# usage: seedverify.sh <seed dir containing patch.diff + demo_test.rs|demo.diff> <name>
set -u
SD="$1"; NAME="$2"
WT=/tmp/vw-$NAME
export CARGO_NET_OFFLINE=true
export CARGO_TARGET_DIR=/tmp/vw-target-$NAME
rm -rf "$WT"; git -C /repo worktree prune; git -C /repo worktree add -q --detach "$WT" HEAD || exit 3
cd "$WT"
RF=""
grep -q "avx2" "$SD/meta.json" 2>/dev/null && grep -qi 'RUSTFLAGS' "$SD/meta.json" && RF="-C target-feature=+avx2"
demo_run() {
  if [ -f "$SD/demo_test.rs" ]; then
    mkdir -p vibrato/tests; cp "$SD/demo_test.rs" vibrato/tests/seed_demo.rs
    RUSTFLAGS="$RF" cargo test -p vibrato --offline --test seed_demo 2>&1 | tail -40
    local rc=${PIPESTATUS[0]}
    rm -f vibrato/tests/seed_demo.rs; rmdir vibrato/tests 2>/dev/null
    return $rc
  else
    git apply "$SD/demo.diff" || return 99
    local tname=$(grep -oE 'fn [a-z0-9_]+' "$SD/demo.diff" | head -1 | cut -d' ' -f2)
    RUSTFLAGS="$RF" cargo test -p vibrato --offline "$tname" 2>&1 | tail -40
    local rc=${PIPESTATUS[0]}
    git apply -R "$SD/demo.diff"
    return $rc
  fi
}
echo "== $NAME: demo on pristine"; demo_run > /tmp/vw-$NAME.pristine.log 2>&1; P=$?
git apply "$SD/patch.diff" || { echo "RESULT $NAME patch-does-not-apply"; cd /; git -C /repo worktree remove --force "$WT"; rm -rf $CARGO_TARGET_DIR; exit 4; }
echo "== $NAME: suite with patch"; cargo test --workspace --no-fail-fast --offline > /tmp/vw-$NAME.suite.log 2>&1; S=$?
NPASS=$(grep -E "^test result: ok. 103 passed" /tmp/vw-$NAME.suite.log | wc -l)
echo "== $NAME: demo with patch"; demo_run > /tmp/vw-$NAME.patched.log 2>&1; D=$?
echo "RESULT $NAME pristine_demo_rc=$P suite_rc=$S suite103=$NPASS patched_demo_rc=$D avx2=${RF:+yes}"
cd /; git -C /repo worktree remove --force "$WT"; rm -rf "$CARGO_TARGET_DIR"
