//! C01 (partition), C02 (optimality), C03 (candidates): generated dictionaries x options x strings.
use crate::gen::*;
use crate::model::*;
use crate::oracles::*;
use crate::real::*;
use crate::report::Ctx;
use crate::rng::{hash_bytes, Rng};
use serde::{Deserialize, Serialize};
use serde_json::json;
use vibrato::dictionary::Dictionary;
use vibrato::Tokenizer;

#[derive(Clone, Debug, Serialize, Deserialize)]
pub struct TokCase {
    pub spec: DictSpec,
    pub user: Option<Vec<LexRow>>,
    /// (pl, pr): p[old] = new
    pub mapping: Option<(Vec<usize>, Vec<usize>)>,
    /// a second mapping applied right after the first (only when `mapping` is set)
    #[serde(default)]
    pub mapping2: Option<(Vec<usize>, Vec<usize>)>,
    pub user_before_map: bool,
    pub roundtrip: bool,
    pub opts: Vec<Opts>,
    pub sentences: Vec<String>,
}

impl TokCase {
    pub fn texts(&self) -> serde_json::Value {
        let conn = match conn_texts(&self.spec.conn) {
            ConnTexts::Matrix(m) => json!({"matrix.def": String::from_utf8_lossy(&m)}),
            ConnTexts::Bigram { right, left, cost, dual } => json!({"bigram.right": String::from_utf8_lossy(&right), "bigram.left": String::from_utf8_lossy(&left), "bigram.cost": String::from_utf8_lossy(&cost), "dual": dual}),
        };
        json!({
            "lex.csv": self.spec.lex_csv(), "char.def": self.spec.char_def(), "unk.def": self.spec.unk_def(), "connector": conn,
            "user.csv": self.user.as_ref().map(|u| lex_csv(u)),
            "mapping(lmap,rmap)": self.mapping.as_ref().map(|(pl, pr)| (perm_to_iter(pl), perm_to_iter(pr))),
            "second_mapping(lmap,rmap)": self.mapping.as_ref().and(self.mapping2.as_ref()).map(|(pl, pr)| (perm_to_iter(pl), perm_to_iter(pr))),
            "user_before_map": self.user_before_map, "roundtrip": self.roundtrip,
        })
    }
    pub fn brief(&self, s: &str, o: Opts) -> serde_json::Value {
        json!({"files": self.texts(), "sentence": s, "opts": o})
    }
}

pub enum Prep {
    Ready { dict: Dictionary, spec: DictSpec, user: Option<Vec<LexRow>> },
    Rejected(String),
    Panicked(String),
}

/// Builds the real dictionary for a case and the matching reference description.
pub fn prepare(case: &TokCase) -> Prep {
    let mut d = match build_spec(&case.spec) {
        BuildOutcome::Ok(d) => d,
        BuildOutcome::Err(e) => return Prep::Rejected(format!("build: {e}")),
        BuildOutcome::Panic(p) => return Prep::Panicked(format!("build: {p}")),
    };
    let load = |d: Dictionary, rows: &Vec<LexRow>| -> Result<Dictionary, Prep> {
        match load_user(d, Some(rows)) {
            Ok(Ok(d)) => Ok(d),
            Ok(Err(e)) => Err(Prep::Rejected(format!("user: {e}"))),
            Err(p) => Err(Prep::Panicked(format!("user: {p}"))),
        }
    };
    if let (Some(u), true) = (&case.user, case.user_before_map || case.mapping.is_none()) {
        d = match load(d, u) {
            Ok(d) => d,
            Err(p) => return p,
        };
    }
    let mut spec = case.spec.clone();
    let mut user = case.user.clone();
    if let Some((pl, pr)) = &case.mapping {
        let (li, ri) = (perm_to_iter(pl), perm_to_iter(pr));
        d = match guarded(move || d.map_connection_ids_from_iter(li, ri).map_err(|e| e.to_string())) {
            Ok(Ok(d)) => d,
            Ok(Err(e)) => return Prep::Rejected(format!("map: {e}")),
            Err(p) => return Prep::Panicked(format!("map: {p}")),
        };
        spec = case.spec.mapped(pl, pr);
        user = case.user.as_ref().map(|u| map_rows(u, pl, pr));
        if let Some((ql, qr)) = &case.mapping2 {
            // a user lexicon that is already there is renumbered a second time; one loaded afterwards is
            // translated by the composition of both mappings
            let (li, ri) = (perm_to_iter(ql), perm_to_iter(qr));
            d = match guarded(move || d.map_connection_ids_from_iter(li, ri).map_err(|e| e.to_string())) {
                Ok(Ok(d)) => d,
                Ok(Err(e)) => return Prep::Rejected(format!("second map: {e}")),
                Err(p) => return Prep::Panicked(format!("second map: {p}")),
            };
            spec = spec.mapped(ql, qr);
            user = user.as_ref().map(|u| map_rows(u, ql, qr));
        }
        if let (Some(u), false) = (&case.user, case.user_before_map) {
            d = match load(d, u) {
                Ok(d) => d,
                Err(p) => return p,
            };
        }
    }
    if case.roundtrip {
        let bytes = match write_dict(&d) {
            Ok((b, _)) => b,
            Err(e) => return Prep::Panicked(e),
        };
        d = match read_dict(&bytes) {
            Ok(Ok(d)) => d,
            Ok(Err(e)) => return Prep::Rejected(format!("read: {e}")),
            Err(p) => return Prep::Panicked(format!("read: {p}")),
        };
    }
    Prep::Ready { dict: d, spec, user }
}

pub fn gen_tokcase(rng: &mut Rng, cfg: &GenCfg, nsent: usize, variety: bool) -> TokCase {
    let mut spec = gen_dict(rng, cfg);
    let mut user = if rng.chance(0.4) { Some(gen_user(rng, &spec, cfg)) } else { None };
    if variety && rng.chance(0.02) {
        // an id space of realistic size (more than 4096 right ids)
        widen_right_ids(rng, &mut spec, user.as_mut());
    }
    let (nr, nl) = spec.conn.dims();
    let mapping = if variety && rng.chance(0.3) { Some((gen_perm_ids(rng, nl), gen_perm_ids(rng, nr))) } else { None };
    let mapping2 = if mapping.is_some() && rng.chance(0.35) { Some((gen_perm_ids(rng, nl), gen_perm_ids(rng, nr))) } else { None };
    let user_before_map = rng.chance(0.5);
    let roundtrip = variety && rng.chance(0.15);
    let mut opts = vec![gen_opts(rng, &spec)];
    if rng.chance(0.5) {
        opts.push(gen_opts(rng, &spec));
    }
    let mut sentences = vec![];
    for _ in 0..nsent {
        sentences.push(gen_sentence(rng, &spec, user.as_deref()));
    }
    TokCase { spec, user, mapping, mapping2, user_before_map, roundtrip, opts, sentences }
}

fn case_hash(case: &TokCase, s: &str, o: Opts) -> u64 {
    let mut b = serde_json::to_vec(&case.spec).unwrap();
    b.extend(serde_json::to_vec(&case.user).unwrap());
    b.extend(serde_json::to_vec(&case.mapping).unwrap());
    b.extend(serde_json::to_vec(&case.mapping2).unwrap());
    b.extend(s.as_bytes());
    b.push(o.ignore_space as u8);
    b.push(o.mgl as u8);
    hash_bytes(&b)
}

fn count_prep(ctx: &mut Ctx, p: &Prep) {
    match p {
        Prep::Ready { .. } => ctx.bucket("dict_accepted"),
        Prep::Rejected(e) => {
            ctx.bucket("dict_rejected");
            ctx.note(format!("rejected: {e}"));
        }
        Prep::Panicked(e) => {
            ctx.bucket("dict_builder_panicked");
            ctx.note(format!("builder panic: {e}"));
        }
    }
}

fn conn_bucket(ctx: &mut Ctx, case: &TokCase) {
    ctx.bucket(&format!("connector_{}", case.spec.conn.kind()));
    if case.user.is_some() {
        ctx.bucket("with_user_lexicon");
    }
    if case.mapping.is_some() {
        ctx.bucket("with_id_mapping");
        if case.mapping2.is_some() {
            ctx.bucket(if case.user.is_none() { "with_two_id_mappings" } else if case.user_before_map { "user_lexicon_then_two_id_mappings" } else { "two_id_mappings_then_user_lexicon" });
        }
    }
    if case.roundtrip {
        ctx.bucket("after_write_read");
    }
}

/// stress sentences for the thorough tier
fn stress_sentences(rng: &mut Rng, spec: &DictSpec) -> Vec<String> {
    let mut v = vec![];
    let n = 2000 + rng.below(8000);
    let c = *rng.pick(ALPHA);
    v.push(std::iter::repeat(c).take(n).collect());
    let mut s = String::new();
    for _ in 0..n / 4 {
        s += &spec.lex[rng.below(spec.lex.len())].surface;
        s.push(*rng.pick(ALPHA));
    }
    v.push(s);
    v
}

// ---------------------------------------------------------------- C01

pub fn c01_case(ctx: &mut Ctx, rng: &mut Rng) {
    let uncovered = rng.chance(0.08);
    let cfg = GenCfg { covered: !uncovered, ..Default::default() };
    let mut case = gen_tokcase(rng, &cfg, 24, true);
    if ctx.thorough() && rng.chance(0.01) {
        let extra = stress_sentences(rng, &case.spec);
        case.sentences.extend(extra);
        ctx.bucket("stress_sentences");
    }
    if rng.chance(0.06) {
        c01_id_at_dimension(ctx, rng, &case);
        return;
    }
    c01_run(ctx, &case);
}

/// One row gets a connection id equal to the dimension of the connector (one past the largest id). Whether the
/// builder accepts that is C10's business; here: if it does, tokenization must still not panic (and the
/// sanitizer flavours watch the table accesses).
fn c01_id_at_dimension(ctx: &mut Ctx, rng: &mut Rng, case: &TokCase) {
    let mut c = case.clone();
    c.mapping = None;
    let (nr, nl) = c.spec.conn.dims();
    let left = rng.chance(0.5);
    let bump = rng.below(2);
    let set = |l: &mut u16, r: &mut u16| {
        if left {
            *l = (nl + bump) as u16;
        } else {
            *r = (nr + bump) as u16;
        }
    };
    let which = match rng.below(3) {
        0 => {
            let i = rng.below(c.spec.lex.len());
            let row = &mut c.spec.lex[i];
            set(&mut row.l, &mut row.r);
            "lex.csv"
        }
        1 if !c.spec.unk.is_empty() => {
            let i = rng.below(c.spec.unk.len());
            let row = &mut c.spec.unk[i];
            set(&mut row.l, &mut row.r);
            "unk.def"
        }
        _ => match c.user.as_mut() {
            Some(u) if !u.is_empty() => {
                let i = rng.below(u.len());
                let row = &mut u[i];
                set(&mut row.l, &mut row.r);
                "user.csv"
            }
            _ => return,
        },
    };
    let what = format!("{which}: a {} id set to {}, the connector has {nr} right and {nl} left ids", if left { "left" } else { "right" }, if left { nl + bump } else { nr + bump });
    let dict = match prepare(&c) {
        Prep::Ready { dict, .. } => dict,
        Prep::Panicked(_) | Prep::Rejected(_) => {
            // (what the builder does with it is judged by C10)
            ctx.bucket("id_equal_to_dimension_rejected_by_builder");
            return;
        }
    };
    ctx.bucket("id_equal_to_dimension_accepted_by_builder");
    let tok = Tokenizer::new(dict);
    let mut w = tok.new_worker();
    for s in &c.sentences {
        ctx.eval();
        if let Err(p) = tokenize(&mut w, s) {
            ctx.violation("tokenize_panicked", &format!("C01:tokenize:{}:id-at-dimension-accepted", panic_class(&p)), format!("{what}: {p}"), c.brief(s, c.opts[0]));
            return;
        }
    }
}

pub fn c01_run(ctx: &mut Ctx, case: &TokCase) {
    let prep = prepare(case);
    count_prep(ctx, &prep);
    let (dict, spec, user) = match prep {
        Prep::Ready { dict, spec, user } => (dict, spec, user),
        _ => return,
    };
    conn_bucket(ctx, case);
    let refd = RefDict::new(&spec, user.as_deref());
    let mut dict = Some(dict);
    for &o in &case.opts {
        let tok = match make_tokenizer_hist(dict.take().unwrap(), o, spec.cat_index("SPACE").is_some()) {
            Ok(t) => t,
            Err(e) => {
                ctx.violation("ignore_space_rejected_with_SPACE_defined", "C01:make_tokenizer", e, case.brief("", o));
                return;
            }
        };
        let mut w = tok.new_worker();
        for s in &case.sentences {
            let chars: Vec<char> = s.chars().collect();
            let rout = refd.analyze(&chars, o);
            ctx.eval();
            let res = tokenize(&mut w, s);
            let toks = match res {
                Ok(t) => t,
                Err(p) => {
                    let uncovered_cause = rout.total.is_none() && rout.dead_position.is_some();
                    if uncovered_cause {
                        ctx.bucket("uncovered_category_panic");
                        ctx.violation("tokenize_panicked", "C01:tokenize:panic:reference-lattice-disconnected-by-uncovered-category", format!("{p}; a reachable position has no candidate because its category has no unk.def entry"), case.brief(s, o));
                    } else {
                        ctx.violation("tokenize_panicked", &format!("C01:tokenize:{}", panic_class(&p)), p, case.brief(s, o));
                    }
                    w = tok.new_worker();
                    continue;
                }
            };
            if rout.total.is_none() && !chars.is_empty() {
                // reference sees no complete path, yet tokens were produced: judged by the partition checker below
                ctx.bucket("reference_disconnected_but_tokens");
            }
            // token(i) and token_iter() agree
            let via_iter: Vec<(usize, usize, String)> = w.token_iter().map(|t| (t.range_char().start, t.range_char().end, t.feature().to_string())).collect();
            let via_idx: Vec<(usize, usize, String)> = toks.iter().map(|t| (t.cs, t.ce, t.feat.clone())).collect();
            if via_iter != via_idx {
                ctx.violation("token_iter_disagrees_with_token", "C01:token_iter", format!("{via_iter:?} vs {via_idx:?}"), case.brief(s, o));
            }
            if let Err((check, detail)) = check_partition(&spec, user.as_deref(), o, s, &toks, tok.dictionary()) {
                ctx.violation(&check, &format!("C01:{check}"), detail + &format!(" | tokens {:?}", toks_brief(&toks)), case.brief(s, o));
            }
            if chars.len() % 5 == 1 {
                // tokenize() once more on the same worker, without reset_sentence: the tokens are a partition again
                match guarded(|| {
                    w.tokenize();
                    read_tokens(&w)
                }) {
                    Ok(again) => {
                        if let Err((check, detail)) = check_partition(&spec, user.as_deref(), o, s, &again, tok.dictionary()) {
                            ctx.violation(&check, &format!("C01:{check}:after_second_tokenize"), format!("after a second tokenize() without reset_sentence: {detail} | tokens {:?}", toks_brief(&again)), case.brief(s, o));
                        }
                        ctx.bucket("tokenize_called_twice");
                    }
                    Err(p) => {
                        ctx.violation("tokenize_panicked", &format!("C01:tokenize:{}:second_call", panic_class(&p)), p, case.brief(s, o));
                        w = tok.new_worker();
                    }
                }
            }
            ctx.total("tokens_observed", toks.len() as u64);
            if chars.len() >= 2 && rout.n_opt >= 1 {
                ctx.distinct(case_hash(case, s, o));
            }
            if s.chars().any(|c| c as u32 > 0xFFFF) {
                ctx.bucket("astral_in_sentence");
            }
            if s.chars().any(|c| c.len_utf8() == 2) {
                ctx.bucket("two_byte_char");
            }
            if o.ignore_space && toks.windows(2).any(|p| p[0].ce < p[1].cs) {
                ctx.bucket("inner_gap_observed");
            }
            if o.ignore_space && !toks.is_empty() && toks[0].cs > 0 {
                ctx.bucket("leading_gap_observed");
            }
            if o.ignore_space && !toks.is_empty() && toks.last().unwrap().ce < chars.len() {
                ctx.bucket("trailing_gap_observed");
            }
            if toks.iter().any(|t| t.lex == 2) {
                ctx.bucket("unknown_token_observed");
            }
            if toks.iter().any(|t| t.lex == 1) {
                ctx.bucket("user_token_observed");
            }
            if ctx.want_sample() && toks.len() >= 2 {
                ctx.sample(json!({"sentence": s, "opts": o, "connector": case.spec.conn.kind(), "tokens": toks_brief(&toks)}));
            }
        }
        let (t, _) = vibrato::verif::take_events();
        ctx.total("events_cost_eval", t.cost_evals);
        ctx.total("events_node_inserted", t.nodes);
        ctx.total("events_lattice_reset", t.resets);
        drop(w);
        dict = Some(into_dict(tok));
    }
}

/// Tokenizer has no way to give the dictionary back; rebuild by write/read is wasteful, so a
/// second option setting simply re-prepares through a fresh clone of the bytes.
fn into_dict(tok: Tokenizer) -> Dictionary {
    let (bytes, _) = write_dict(tok.dictionary()).expect("write");
    read_dict(&bytes).expect("read").expect("read")
}

// ---------------------------------------------------------------- C02

pub fn c02_case(ctx: &mut Ctx, rng: &mut Rng) {
    let tie = rng.chance(0.3);
    let cfg = GenCfg { tie_heavy: tie, ..Default::default() };
    let case = gen_tokcase(rng, &cfg, 24, true);
    if tie {
        ctx.bucket("tie_heavy_dictionary");
    }
    c02_run(ctx, &case);
}

pub fn c02_run(ctx: &mut Ctx, case: &TokCase) {
    let prep = prepare(case);
    count_prep(ctx, &prep);
    let (dict, spec, user) = match prep {
        Prep::Ready { dict, spec, user } => (dict, spec, user),
        _ => return,
    };
    conn_bucket(ctx, case);
    let refd = RefDict::new(&spec, user.as_deref());
    let clean = is_clean_space(&spec, user.as_deref());
    if ctx.verbose {
        eprintln!("conn check: {:?}", conn_mismatch(&dict, &refd));
    }
    let mut dict = Some(dict);
    for &o in &case.opts {
        let tok = match make_tokenizer(dict.take().unwrap(), o) {
            Ok(t) => t,
            Err(_) => return,
        };
        let mut w = tok.new_worker();
        for s in &case.sentences {
            let chars: Vec<char> = s.chars().collect();
            let rout = refd.analyze(&chars, o);
            if rout.max_abs > (i32::MAX as i64) / 2 {
                ctx.bucket("skipped_cost_beyond_i32");
                continue;
            }
            ctx.eval();
            let toks = match tokenize(&mut w, s) {
                Ok(t) => t,
                Err(p) => {
                    ctx.violation("tokenize_panicked", &format!("C02:tokenize:{}", panic_class(&p)), p, case.brief(s, o));
                    w = tok.new_worker();
                    continue;
                }
            };
            if chars.is_empty() {
                continue;
            }
            let dump = vibrato::verif::dump_lattice(&w);
            if let Err((check, detail)) = check_dump_dp(&refd, &dump, &toks) {
                ctx.violation(&check, &format!("C02:{check}"), detail + &format!(" | tokens {:?}", toks_brief(&toks)), case.brief(s, o));
                continue;
            }
            ctx.total("lattice_nodes_checked", dump.ends.iter().map(|e| e.len() as u64).sum());
            // black box against reference candidates: only where the skipping rule is pinned down
            if !o.ignore_space || clean {
                if let Err((check, detail)) = check_blackbox_opt(&refd, &rout, &toks, chars.len()) {
                    ctx.violation(&check, &format!("C02:{check}"), detail + &format!(" | tokens {:?}", toks_brief(&toks)), case.brief(s, o));
                    continue;
                }
                ctx.bucket("blackbox_optimum_compared");
                // short sentences: every segmentation enumerated one by one (no DP shared with the reference)
                if chars.len() <= 7 {
                    if let Some(bf) = refd.brute_force_min(&rout, 200_000) {
                        let pc = path_cost(&refd, &toks).unwrap_or(i64::MIN);
                        if pc != bf {
                            ctx.violation("cheaper_path_exists_by_enumeration", "C02:cheaper_path_exists_by_enumeration", format!("the reported path costs {pc}; enumerating every segmentation of the candidate set gives a minimum of {bf} (reference DP: {:?})", rout.total), case.brief(s, o));
                            continue;
                        }
                        ctx.bucket("every_segmentation_enumerated");
                    }
                }
            }
            let complete_paths_ge2 = dump.ends.iter().skip(1).filter(|e| e.len() >= 2).count() >= 1;
            if complete_paths_ge2 {
                ctx.distinct(case_hash(case, s, o));
            }
            if rout.n_opt >= 2 {
                ctx.bucket("tie_among_optimal_paths");
            }
            if toks.iter().any(|t| t.wcost < 0) {
                ctx.bucket("negative_word_cost_on_path");
            }
            // does the EOS connection decide? (best predecessor without EOS differs from with EOS)
            if let Some(e) = &dump.eos {
                let preds = &dump.ends[e.start_node];
                let min_wo = preds.iter().map(|p| p.min_cost).min().unwrap();
                if preds[e.min_idx].min_cost != min_wo {
                    ctx.bucket("eos_connection_decides");
                }
            }
            if ctx.want_sample() && toks.len() >= 2 {
                ctx.sample(json!({"sentence": s, "opts": o, "connector": case.spec.conn.kind(), "optimal_paths": rout.n_opt, "reference_optimum": rout.total, "tokens": toks_brief(&toks)}));
            }
        }
        let (t, _) = vibrato::verif::take_events();
        ctx.total("events_cost_eval", t.cost_evals);
        ctx.total("events_node_inserted", t.nodes);
        drop(w);
        dict = Some(into_dict(tok));
    }
}

/// C12's precondition: U+0020/U+3000 are in SPACE alone, nothing else is, no surface has a space.
pub fn is_clean_space(spec: &DictSpec, user: Option<&[LexRow]>) -> bool {
    let sc = match spec.cat_index("SPACE") {
        Some(s) => s,
        None => return false,
    };
    for r in &spec.ranges {
        if r.cats.contains(&sc) {
            let only_space_chars = (r.lo == 0x20 && r.hi == 0x20) || (r.lo == 0x3000 && r.hi == 0x3000);
            if !only_space_chars || r.cats.len() != 1 {
                return false;
            }
        }
    }
    for c in [' ', '\u{3000}'] {
        let (set, _) = spec.cinfo(c);
        if set != vec![sc] {
            return false;
        }
    }
    let has_sp = |rows: &[LexRow]| rows.iter().any(|r| r.surface.contains(' ') || r.surface.contains('\u{3000}'));
    !has_sp(&spec.lex) && !user.map_or(false, has_sp)
}

/// The C12 precondition in its general form: the set of characters that belong to SPACE (and to SPACE alone),
/// when ' ' and U+3000 are among them, no character belongs to SPACE together with another category, astral
/// characters (which share the entry of U+0000) are not in SPACE, and no lexicon surface contains one of them.
pub fn clean_space_set(spec: &DictSpec, user: Option<&[LexRow]>) -> Option<Vec<char>> {
    let sc = spec.cat_index("SPACE")?;
    let mut set: Vec<char> = vec![];
    for r in &spec.ranges {
        if !r.cats.contains(&sc) {
            continue;
        }
        for x in r.lo..=r.hi {
            if let Some(c) = char::from_u32(x) {
                let (cs, _) = spec.cinfo(c);
                if cs.contains(&sc) {
                    if cs != vec![sc] || x == 0 {
                        return None;
                    }
                    if !set.contains(&c) {
                        set.push(c);
                    }
                }
            }
        }
    }
    if !set.contains(&' ') || !set.contains(&'\u{3000}') {
        return None;
    }
    let has_sp = |rows: &[LexRow]| rows.iter().any(|r| r.surface.chars().any(|c| set.contains(&c)));
    if has_sp(&spec.lex) || user.map_or(false, has_sp) {
        return None;
    }
    Some(set)
}

/// A sentence of more than 65536 characters in which lexicon words and unknown words alternate: positions beyond
/// 65535 are positions like any other.
pub fn c01_witness_long_sentence(ctx: &mut Ctx) {
    let char_def = "DEFAULT 0 0 1\nSPACE 0 1 0\n0x0020 SPACE\n";
    for ignore_space in [false, true] {
        let d = match build_from_texts(b"a,0,0,1,A\n", char_def.as_bytes(), b"DEFAULT,0,0,10,D\nSPACE,0,0,5,S\n", &ConnTexts::Matrix(b"1 1\n0 0 0\n".to_vec())) {
            BuildOutcome::Ok(d) => d,
            _ => return,
        };
        let tok = match Tokenizer::new(d).ignore_space(ignore_space) {
            Ok(t) => t,
            Err(_) => return,
        };
        let mut w = tok.new_worker();
        // "a" (lexicon), "b" (unknown, one character), now and then a space and an astral character
        let mut s = String::new();
        let mut want: Vec<(usize, usize, &str)> = vec![];
        let mut pos = 0usize;
        for i in 0..33_500 {
            for (c, f) in [("a", "A"), (if i % 97 == 0 { "𠮷" } else { "b" }, "D")] {
                s.push_str(c);
                want.push((pos, pos + 1, f));
                pos += 1;
            }
            if i % 1000 == 999 {
                s.push(' ');
                if !ignore_space {
                    want.push((pos, pos + 1, "S"));
                }
                pos += 1;
            }
        }
        ctx.eval();
        let case = json!({"char.def": char_def, "lex.csv": "a,0,0,1,A", "unk.def": "DEFAULT,0,0,10,D\nSPACE,0,0,5,S", "sentence": format!("{} characters: a b a b ... with a space after every 2000 and U+20BB7 now and then", pos), "ignore_space": ignore_space});
        match tokenize(&mut w, &s) {
            Ok(t) => {
                let got: Vec<(usize, usize, &str)> = t.iter().map(|x| (x.cs, x.ce, x.feat.as_str())).collect();
                let chars: Vec<char> = s.chars().collect();
                let surf_ok = t.iter().all(|x| x.surface == chars[x.cs..x.ce].iter().collect::<String>());
                if got != want || !surf_ok {
                    let at = got.iter().zip(&want).position(|(a, b)| a != b).unwrap_or(got.len().min(want.len()));
                    ctx.violation("tokens_do_not_partition_a_long_sentence", "C01:witness:long-sentence", format!("{} tokens, expected {}; first difference at token {at}: {:?} vs {:?}; surfaces agree with the input: {surf_ok}", got.len(), want.len(), got.get(at), want.get(at)), case);
                    return;
                }
                ctx.bucket("witness_sentence_longer_than_65536_characters_ok");
            }
            Err(p) => {
                ctx.violation("tokenize_panicked", "C01:witness:long-sentence", p, case);
                return;
            }
        }
    }
}

/// Known finding C02: >= 65536 nodes ending at one boundary (16-bit back pointer).
pub fn c02_witness_many_nodes(ctx: &mut Ctx) {
    let n = 70_000usize;
    let mut lex = String::new();
    for i in 0..n {
        // all homographs cost 10 except one cheap entry placed beyond index 65535
        let cost = if i == 69_000 { 1 } else { 10 };
        lex += &format!("a,0,0,{},H{}\n", cost, i);
    }
    lex += "b,0,0,5,B\n";
    let d = match build_from_texts(lex.as_bytes(), b"DEFAULT 0 1 0\n", b"DEFAULT,0,0,1000,*\n", &ConnTexts::Matrix(b"1 1\n0 0 0\n".to_vec())) {
        BuildOutcome::Ok(d) => d,
        _ => {
            ctx.note("C02 witness: dictionary not built".into());
            return;
        }
    };
    let tok = Tokenizer::new(d);
    let mut w = tok.new_worker();
    ctx.eval();
    let case = json!({"lex.csv": "70000 rows `a,0,0,10,H<i>` (row 69000 has cost 1) + `b,0,0,5,B`", "matrix.def": "1 1\n0 0 0", "char.def": "DEFAULT 0 1 0", "unk.def": "DEFAULT,0,0,1000,*", "sentence": "ab"});
    match tokenize(&mut w, "ab") {
        Ok(toks) => {
            let total = toks.last().map(|t| t.total).unwrap_or(-1);
            let prefix_ok = toks.len() == 2 && toks[0].total as i64 == toks[0].wcost as i64 && toks[1].total as i64 == toks[0].total as i64 + toks[1].wcost as i64;
            if total != 6 || !prefix_ok {
                ctx.violation("cheaper_path_exists", "C02:boundary-with-65536-or-more-nodes", format!("optimal cost is 6 (a/H69000 + b), reported {:?}", toks_brief(&toks)), case);
            } else {
                ctx.bucket("witness_many_nodes_ok");
            }
        }
        Err(p) => ctx.violation("tokenize_panicked", "C02:boundary-with-65536-or-more-nodes", p, case),
    }
}

// ---------------------------------------------------------------- C03

pub fn c03_case(ctx: &mut Ctx, rng: &mut Rng) {
    let cfg = GenCfg { clean_space: rng.chance(0.6), ..Default::default() };
    let mut case = gen_tokcase(rng, &cfg, 24, false);
    if rng.chance(0.08) {
        case.sentences.push("\u{FFFE}\u{FFFF}\u{FFFF}a".into());
    }
    // sweep max_grouping_len around run lengths
    case.opts = vec![gen_opts(rng, &case.spec), Opts { ignore_space: false, mgl: rng.below(4) }];
    if case.user.is_some() && rng.chance(0.15) {
        // the user lexicon is loaded and cleared again: candidates must be those of the system lexicon alone
        c03_run_cleared(ctx, &case);
        return;
    }
    c03_run(ctx, &case);
}

fn c03_run_cleared(ctx: &mut Ctx, case: &TokCase) {
    let mut c2 = case.clone();
    c2.user = None;
    c2.mapping = None;
    c2.roundtrip = false;
    let with_user = TokCase { mapping: None, roundtrip: false, ..case.clone() };
    let d = match prepare(&with_user) {
        Prep::Ready { dict, .. } => dict,
        _ => return,
    };
    let d = match load_user(d, None) {
        Ok(Ok(d)) => d,
        _ => return,
    };
    ctx.bucket("user_lexicon_loaded_then_cleared");
    c03_run_on(ctx, &c2, Prep::Ready { dict: d, spec: c2.spec.clone(), user: None });
}

pub fn c03_run(ctx: &mut Ctx, case: &TokCase) {
    let prep = prepare(case);
    c03_run_on(ctx, case, prep);
}

fn c03_run_on(ctx: &mut Ctx, case: &TokCase, prep: Prep) {
    count_prep(ctx, &prep);
    let (dict, spec, user) = match prep {
        Prep::Ready { dict, spec, user } => (dict, spec, user),
        _ => return,
    };
    conn_bucket(ctx, case);
    let refd = RefDict::new(&spec, user.as_deref());
    let clean = is_clean_space(&spec, user.as_deref());
    let cats = vibrato::verif::categories(&dict);
    // character table: characters of the alphabet, range borders +-1; thorough: the whole BMP
    let mut probe: Vec<char> = ALPHA.to_vec();
    for r in &spec.ranges {
        for c in [r.lo.saturating_sub(1), r.lo, r.hi, r.hi + 1, 0x10000 + r.lo, 0x20000 + r.hi, 0x100000 + r.lo] {
            if let Some(ch) = char::from_u32(c) {
                probe.push(ch);
            }
        }
    }
    probe.push('\u{FFFF}');
    probe.push('\u{10000}');
    if ctx.thorough() && ctx.index % 50 == 0 {
        probe.extend((1u32..=0xFFFF).filter_map(char::from_u32));
        ctx.bucket("whole_bmp_table_compared");
    }
    for &ch in &probe {
        ctx.eval();
        if let Err((check, detail)) = check_char_info(&spec, &dict, &cats, ch) {
            ctx.violation(&check, &format!("C03:{check}"), detail, case.brief(&ch.to_string(), case.opts[0]));
            break;
        }
    }
    ctx.total("char_table_entries_compared", probe.len() as u64);
    let mut dict = Some(dict);
    for &o in &case.opts {
        let tok = match make_tokenizer(dict.take().unwrap(), o) {
            Ok(t) => t,
            Err(_) => return,
        };
        let mut w = tok.new_worker();
        for s in &case.sentences {
            let chars: Vec<char> = s.chars().collect();
            if chars.is_empty() {
                continue;
            }
            let rout = refd.analyze(&chars, o);
            ctx.eval();
            let toks = match tokenize(&mut w, s) {
                Ok(t) => t,
                Err(p) => {
                    ctx.violation("tokenize_panicked", &format!("C03:tokenize:{}", panic_class(&p)), p, case.brief(s, o));
                    w = tok.new_worker();
                    continue;
                }
            };
            let full_compare = !o.ignore_space || clean;
            if full_compare {
                let dump = vibrato::verif::dump_lattice(&w);
                if let Err((check, detail)) = check_candidates(&rout, &dump, tok.dictionary(), true) {
                    ctx.violation(&check, &format!("C03:{check}"), detail, case.brief(s, o));
                    continue;
                }
                if let Err((check, detail)) = check_membership(&rout, &toks) {
                    ctx.violation(&check, &format!("C03:{check}"), detail, case.brief(s, o));
                    continue;
                }
                if let Err((check, detail)) = check_blackbox_opt(&refd, &rout, &toks, chars.len()) {
                    ctx.violation(&check, &format!("C03:{check}"), detail, case.brief(s, o));
                    continue;
                }
                ctx.total("positions_compared", rout.processed.iter().filter(|&&b| b).count() as u64);
                ctx.total("candidates_compared", rout.cands_at.iter().map(|c| c.len() as u64).sum());
                for b in &rout.buckets {
                    ctx.bucket(b);
                }
                if o.mgl != 0 {
                    ctx.bucket("max_grouping_len_set");
                }
                if rout.cands_at.iter().any(|c| c.iter().any(|x| x.kind == 1)) {
                    ctx.bucket("user_lexicon_candidate");
                }
                if rout.cands_at.iter().any(|c| {
                    let mut seen = std::collections::HashSet::new();
                    c.iter().filter(|x| x.kind != 2).any(|x| !seen.insert(x.end))
                }) {
                    ctx.bucket("homographs_at_position");
                }
                ctx.distinct(case_hash(case, s, o));
                if ctx.want_sample() && chars.len() >= 3 {
                    let cands: Vec<String> = rout.cands_at.iter().flatten().map(|c| format!("{}..{} k{} l{} r{} w{} {}", c.start, c.end, c.kind, c.l, c.r, c.cost, c.feat)).collect();
                    ctx.sample(json!({"sentence": s, "opts": o, "char.def": spec.char_def(), "reference_candidates": cands, "tokens": toks_brief(&toks)}));
                }
            } else {
                ctx.bucket("ignore_space_on_general_dictionary_only_partition_checked");
            }
        }
        drop(w);
        dict = Some(into_dict(tok));
    }
}

/// Known finding C03: astral characters take the table entry of U+0000.
pub fn c03_witness_astral(ctx: &mut Ctx) {
    let char_def = "DEFAULT 0 1 0\nZERO 1 0 2\n0x0000 ZERO\n";
    let d = match build_from_texts(b"a,0,0,1,A\n", char_def.as_bytes(), b"DEFAULT,0,0,10,D\nZERO,0,0,20,Z\n", &ConnTexts::Matrix(b"1 1\n0 0 0\n".to_vec())) {
        BuildOutcome::Ok(d) => d,
        _ => return,
    };
    ctx.eval();
    let ci = vibrato::verif::char_info(&d, '𠮷');
    let cats = vibrato::verif::categories(&d);
    let name = cats.get(ci.base_id as usize).cloned().unwrap_or_default();
    let case = json!({"char.def": char_def, "char": "𠮷 (U+20BB7)"});
    if name != "DEFAULT" {
        ctx.violation("char_info_mismatch", "C03:astral-character-with-range-covering-U+0000", format!("U+20BB7 is covered by no char.def range (ranges stop at U+FFFF), so it must be DEFAULT; the table says {name}"), case);
    } else {
        ctx.bucket("witness_astral_ok");
    }
}

/// Runs of one grouping category longer than 65 535 characters: the grouped candidate is omitted only when the run
/// exceeds max_grouping_len + 1 (never, by default), whatever the length.
pub fn c03_witness_long_runs(ctx: &mut Ctx) {
    let char_def = "DEFAULT 0 1 0\nALPHA 1 1 0\n0x0061..0x007A ALPHA\n";
    // (run length, max_grouping_len, expected number of tokens); a run of n > mgl + 1 characters gives n - (mgl + 1)
    // single-character fallback words followed by the grouped rest
    let cases: [(usize, usize, usize); 6] = [(65_536, 0, 1), (65_537, 0, 1), (70_000, 0, 1), (65_537, 65_536, 1), (65_537, 65_535, 2), (70_001, 70_000, 1)];
    for (n, mgl, want) in cases {
        let d = match build_from_texts(b"zz,0,0,1,Z\n", char_def.as_bytes(), b"DEFAULT,0,0,10,D\nALPHA,0,0,20,A\n", &ConnTexts::Matrix(b"1 1\n0 0 0\n".to_vec())) {
            BuildOutcome::Ok(d) => d,
            _ => return,
        };
        let tok = Tokenizer::new(d).max_grouping_len(mgl);
        let mut w = tok.new_worker();
        let s: String = "a".repeat(n);
        ctx.eval();
        let case = json!({"char.def": char_def, "unk.def": "DEFAULT,0,0,10,D\nALPHA,0,0,20,A", "lex.csv": "zz,0,0,1,Z", "sentence": format!("'a' x {n}"), "max_grouping_len": mgl});
        match tokenize(&mut w, &s) {
            Ok(t) if t.len() == want && t.iter().all(|x| x.feat == "A") && t.last().map_or(false, |x| x.ce == n) => ctx.bucket("witness_group_run_longer_than_65535_ok"),
            Ok(t) => {
                ctx.violation("candidate_multiset_mismatch", "C03:witness:long-group-run", format!("a run of {n} characters of a category with group=1, length=0 and max_grouping_len {mgl}: expected {want} token(s) (the grouped run is omitted only beyond max_grouping_len + 1), got {} token(s), the first {:?}", t.len(), t.first().map(|x| (x.cs, x.ce, x.feat.clone()))), case);
                return;
            }
            Err(p) => {
                ctx.violation("tokenize_panicked", "C03:witness:long-group-run", p, case);
                return;
            }
        }
    }
}

/// Compares the real connector with the reference for every id pair (used by C05/C06/C07/C16).
pub fn conn_mismatch(dict: &Dictionary, refd: &RefDict) -> Option<String> {
    let (nr, nl) = vibrato::verif::conn_dims(dict);
    if (nr, nl) != refd.dims() {
        return Some(format!("connector dimensions {nr}x{nl} but the description has {:?}", refd.dims()));
    }
    for r in 0..nr {
        for l in 0..nl {
            let got = match guarded(|| vibrato::verif::conn_cost(dict, r as u16, l as u16)) {
                Ok(v) => v as i64,
                Err(p) => return Some(format!("cost({r},{l}) panicked: {p}")),
            };
            let want = refd.conn(r as u16, l as u16);
            if got != want {
                return Some(format!("cost(right {r}, left {l}) = {got} but the defining value is {want}"));
            }
        }
    }
    None
}
