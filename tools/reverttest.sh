#!/bin/bash
# Reverts one fix: commit in /repo's working tree (not committed), runs the quick checks given, restores.
# usage: reverttest.sh <commit> <prop> [<prop>...]
C="$1"; shift
cd /repo || exit 2
git diff --quiet || { echo "/repo dirty"; exit 2; }
if ! git revert -n "$C" >/dev/null 2>&1; then
  git revert --abort 2>/dev/null; git reset -q --hard HEAD
  echo "REVERT-CONFLICT $C"; exit 0
fi
git reset -q   # unstage, keep working tree changes
for P in "$@"; do
  OUT=$(cd /verif && ./run "$P" quick 2>/tmp/reverttest.err); RC=$?
  case $RC in
    1) echo "RETURNS-DETECTED $C $P: $(grep -m1 'check=' /tmp/reverttest.err | head -c 200)";;
    0) echo "NOT-DETECTED $C $P";;
    *) echo "INCONCLUSIVE $C $P rc=$RC $(grep -m2 INCONCLUSIVE /tmp/reverttest.err | head -c 300)";;
  esac
done
git -C /repo checkout -- . ; git -C /repo clean -fdq vibrato 2>/dev/null
rm -rf /verif/replays
