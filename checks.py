"""Per-property configuration of the checks: stages (flavour, case counts and time budgets per
tier as [quick, thorough]), coverage that must be observed for a pass, and the evidence text."""

LEVELS = {"C09": "fault_enumeration"}


def st(name, flavour, cases, budget, **kw):
    d = {"name": name, "flavour": flavour, "cases": cases, "budget_s": budget}
    d.update(kw)
    return d


CHECKS = {
    "C01": {
        "stages": [
            st("main", "rel", [1500, 40000], [25, 420]),
            st("dbgassert", "relda", [300, 6000], [20, 300], shards=8),
            st("asan", "asan", [0, 1500], [0, 300], thorough_only=True, shards=8),
        ],
        "rule": "case = generated dictionary (1-6 categories, overlapping ranges, matrix/raw/dual connector, optional user lexicon, "
                "optional id mapping before/after the user lexicon, optional write/read) x 1-2 option settings x 24 strings over a "
                "1-4-byte alphabet; every tokenization is judged by the partition checker. Non-trivial = sentence of >= 2 characters "
                "with a complete reference path; distinct = hash of (dictionary description, user lexicon, mapping, sentence, options).",
        "required_buckets": ["connector_matrix", "connector_raw", "connector_dual", "with_user_lexicon", "with_id_mapping",
                             "astral_in_sentence", "inner_gap_observed", "leading_gap_observed", "trailing_gap_observed",
                             "unknown_token_observed", "user_token_observed"],
        "assumptions": ["the reference character table (last covering range line wins, DEFAULT otherwise) is the reading of char.def the property states",
                        "termination is observed up to the per-stage watchdog only"],
    },
    "C02": {
        "stages": [
            st("main", "rel", [1500, 40000], [25, 420]),
            st("dbgassert", "relda", [300, 6000], [20, 300], shards=8),
        ],
        "rule": "same generator as C01, 30% tie-heavy dictionaries; every non-empty tokenization is judged (a) by an independent i64 DP over "
                "the dumped lattice (Viterbi recurrence of every node and of EOS, back-pointers, reported tokens = back-pointer chain, "
                "total_cost = prefix sums) and (b) black-box against the reference optimum over reference candidates. Non-trivial = "
                "lattice with a boundary where >= 2 nodes end; distinct = hash of (dictionary, user lexicon, mapping, sentence, options).",
        "required_buckets": ["connector_matrix", "connector_raw", "connector_dual", "tie_among_optimal_paths", "eos_connection_decides",
                             "negative_word_cost_on_path", "blackbox_optimum_compared"],
        "assumptions": ["accumulated costs stay within i32 (cases beyond half the range are skipped and counted)",
                        "connection costs used by the oracle come from the generator's description, not from the connector under test"],
    },
    "C03": {
        "stages": [
            st("main", "rel", [1500, 40000], [25, 420]),
            st("dbgassert", "relda", [300, 6000], [20, 300], shards=8),
        ],
        "rule": "generated dictionaries sweeping invoke/group/length, max_grouping_len and overlapping/multi-category ranges; for every "
                "sentence the multiset of lattice nodes per start position (end, lexicon type, ids, cost, feature, row index) is compared "
                "with the reference candidate rule, the set of processed positions likewise, and the character table hook with the "
                "reference table. Non-trivial = non-empty sentence fully compared; distinct = hash of (dictionary, sentence, options).",
        "required_buckets": ["invoke0_lex_match_suppresses", "invoke1_with_lex_match", "group_run", "group_omitted_by_mgl",
                             "length_limited_by_run", "dup_run_length_skipped", "fallback_single_char", "multi_category_char",
                             "astral_start", "homographs_at_position", "user_lexicon_candidate", "space_skipped"],
        "required_buckets_thorough": ["whole_bmp_table_compared"],
        "assumptions": ["with ignore_space the candidate comparison is made only on dictionaries meeting C12's precondition"],
    },
}
