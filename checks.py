"""Per-property configuration of the checks: stages (flavour, case counts and time budgets per
tier as [quick, thorough]), coverage that must be observed for a pass, and the evidence text."""

LEVELS = {"C09": "fault_enumeration"}


def st(name, flavour, cases, budget, **kw):
    d = {"name": name, "flavour": flavour, "cases": cases, "budget_s": budget}
    d.update(kw)
    return d


CHECKS = {
    "C01": {
        "stages": [
            st("main", "rel", [1500, 200000], [25, 420]),
            st("avx2", "avx2", [300, 40000], [20, 240]),
            st("dbgassert", "relda", [300, 30000], [20, 240], shards=8),
            st("asan", "asan", [0, 1500], [0, 300], thorough_only=True, shards=8),
        ],
        "rule": "case = generated dictionary (1-6 categories, overlapping ranges, matrix/raw/dual connector, optional user lexicon, "
                "optional id mapping before/after the user lexicon, optional write/read) x 1-2 option settings x 24 strings over a "
                "1-4-byte alphabet (incl. U+10FFFF); every tokenization is judged by the partition checker; 2% of the matrix dictionaries have "
                "more than 4096 right ids, half of the tokenizers get their options through a history of setter calls, and in 6% of the "
                "cases one row gets an id equal to the connector dimension (if the builder accepts it tokenization must not panic). Non-trivial = sentence of >= 2 characters "
                "with a complete reference path; distinct = hash of (dictionary description, user lexicon, mapping, sentence, options).",
        "required_buckets": ["connector_matrix", "connector_raw", "connector_dual", "with_user_lexicon", "with_id_mapping",
                             "astral_in_sentence", "inner_gap_observed", "leading_gap_observed", "trailing_gap_observed",
                             "unknown_token_observed", "user_token_observed", "id_equal_to_dimension_rejected_by_builder", "two_id_mappings_then_user_lexicon", "user_lexicon_then_two_id_mappings", "tokenize_called_twice", "witness_sentence_longer_than_65536_characters_ok"],
        "assumptions": ["the reference character table (last covering range line wins, DEFAULT otherwise) is the reading of char.def the property states",
                        "termination is observed up to the per-stage watchdog only"],
    },
    "C02": {
        "stages": [
            st("main", "rel", [1500, 200000], [25, 420]),
            st("avx2", "avx2", [300, 40000], [20, 240]),
            st("dbgassert", "relda", [300, 30000], [20, 240], shards=8),
        ],
        "rule": "same generator as C01, 30% tie-heavy dictionaries; every non-empty tokenization is judged (a) by an independent i64 DP over "
                "the dumped lattice (Viterbi recurrence of every node and of EOS, back-pointers, reported tokens = back-pointer chain, "
                "total_cost = prefix sums), (b) black-box against the reference optimum over reference candidates and (c) for sentences of <= 7 "
                "characters against the minimum found by enumerating every segmentation one by one. Non-trivial = "
                "lattice with a boundary where >= 2 nodes end; distinct = hash of (dictionary, user lexicon, mapping, sentence, options).",
        "required_buckets": ["connector_matrix", "connector_raw", "connector_dual", "tie_among_optimal_paths", "eos_connection_decides",
                             "negative_word_cost_on_path", "blackbox_optimum_compared", "every_segmentation_enumerated"],
        "assumptions": ["accumulated costs stay within i32 (cases beyond half the range are skipped and counted)",
                        "connection costs used by the oracle come from the generator's description, not from the connector under test"],
    },
    "C03": {
        "stages": [
            st("main", "rel", [1500, 200000], [25, 420]),
            st("avx2", "avx2", [300, 40000], [20, 240]),
            st("dbgassert", "relda", [300, 30000], [20, 240], shards=8),
        ],
        "rule": "generated dictionaries sweeping invoke/group/length, max_grouping_len and overlapping/multi-category ranges; for every "
                "sentence the multiset of lattice nodes per start position (end, lexicon type, ids, cost, feature, row index) is compared "
                "with the reference candidate rule, the set of processed positions likewise, and the character table hook with the "
                "reference table. Non-trivial = non-empty sentence fully compared; distinct = hash of (dictionary, sentence, options).",
        "required_buckets": ["invoke0_lex_match_suppresses", "invoke1_with_lex_match", "group_run", "group_omitted_by_mgl",
                             "length_limited_by_run", "dup_run_length_skipped", "fallback_single_char", "multi_category_char",
                             "astral_start", "homographs_at_position", "user_lexicon_candidate", "space_skipped", "user_lexicon_loaded_then_cleared", "witness_group_run_longer_than_65535_ok"],
        "required_buckets_thorough": ["whole_bmp_table_compared"],
        "assumptions": ["with ignore_space the candidate comparison is made only on dictionaries meeting C12's precondition"],
    },
    "C04": {
        "stages": [
            st("main", "rel", [250, 30000], [25, 400]),
            st("dbgassert", "relda", [60, 1000], [20, 200], shards=4),
            st("tsan", "tsan", [40, 800], [30, 300], shards=4, concurrent=True),
            st("miri", "miri", [0, 1], [0, 1500], thorough_only=True, shards=1, watchdog_factor=4,
               env={"MIRIFLAGS_EXTRA": "-Zmiri-many-seeds=0..6"}),
        ],
        "rule": "case = generated dictionary + <= 6 distinct sentences (empty, one char, tripled, spaces only ...); (1) a random history of "
                "reset_sentence/tokenize (0-3 times)/read/init_connid_counter/update_connid_counts of length <= 40 on ONE worker, every result "
                "read after a tokenize is compared with a fresh worker's result for the same sentence, every read between reset_sentence and "
                "tokenize with what a fresh worker shows after the same reset_sentence; (2) 2-16 threads, each with its own "
                "worker of ONE shared Tokenizer, run random sentence lists concurrently with seeded yield points, each result compared with "
                "the sequential one; client-side tickets record overlapping calls; 12% of the workloads are long (8 workers x 1500 calls) and 8% "
                "of the dictionaries have more than 4096 right ids. TSan (and Miri, thorough) watch the thread workload. "
                "Non-trivial = a history, or a thread workload in which calls of different threads overlapped; distinct by content hash.",
        "required_buckets": ["tokenize_repeated", "shorter_after_longer", "empty_sentence_in_history", "non_empty_after_empty",
                             "update_counts_in_history", "threads_overlapped", "read_between_reset_and_tokenize", "more_than_4096_right_ids", "long_thread_workload", "new_worker_after_dropped_worker_is_fresh", "two_sentences_of_equal_length"],
        "assumptions": ["interleavings are sampled (OS scheduler + seeded yields), not enumerated",
                        "Tokenizer: Send + Sync and Dictionary: Send + Sync are asserted at compile time by the harness"],
    },
    "C06": {
        "stages": [
            st("main", "rel", [800, 100000], [25, 400]),
            st("avx2", "avx2", [200, 4000], [20, 300]),
            st("dbgassert", "relda", [200, 3000], [20, 200], shards=8),
        ],
        "rule": "case = generated dictionary (matrix/raw/dual) + user lexicon + a history of 1-5 operations from {map with a random pair of "
                "permutations, load user lexicon, write/read} + 16 sentences; oracles: cost'(pi_R r, pi_L l) = cost(r,l) for every id pair "
                "incl. row/column 0 (real before vs real after), tokens before vs after (exact when the reference optimum is unique, by "
                "cost otherwise), ids translated by the composed permutation, mapped run explained by the mapped description; six kinds of "
                "malformed iterators must yield Err. Distinct = hash of (dictionary, operation history, sentence).",
        "required_buckets": ["connector_matrix", "connector_raw", "connector_dual", "mapped_twice_or_more", "user_lexicon_after_two_mappings",
                             "user_lexicon_before_mapping", "with_write_read", "user_token_after_mapping",
                             "malformed_mapping_rejected_contains_0", "malformed_mapping_rejected_duplicate", "malformed_mapping_rejected_too_short",
                             "malformed_mapping_rejected_too_long", "malformed_mapping_rejected_out_of_range", "witness_65536_right_ids_mapped_ok"],
        "assumptions": ["mapping convention as pinned by the existing test_parse_basic: the i-th item is the old id that receives new id i"],
    },
    "C08": {
        "stages": [
            st("main", "rel", [600, 80000], [25, 400]),
            st("avx2", "avx2", [150, 3000], [20, 300]),
            st("dbgassert", "relda", [150, 2500], [20, 200], shards=8),
            st("asan", "asan", [0, 600], [0, 300], thorough_only=True, shards=8),
        ],
        "rule": "case = generated dictionary (optionally id-mapped) + two user lexicons + a load/replace/clear history of length 1-6 + 14 "
                "sentences; oracles: behaviour after the history == the final lexicon loaded alone (tokens exactly, candidate multisets), "
                "candidate multisets modulo lexicon type and optimal cost == system lexicon extended by the same rows, token provenance "
                "(user tokens are user rows), nine kinds of invalid user CSVs must yield Err on mapped and unmapped dictionaries. "
                "Distinct = hash of (dictionary, history, sentence).",
        "required_buckets": ["history_ends_with_clear", "history_replaces_lexicon", "history_ends_with_load", "user_token_on_best_path",
                             "system_token_with_user_lexicon_loaded", "invalid_rows_on_mapped_dictionary", "dictionary_mapped_twice",
                             "invalid_user_lexicon_rejected_left_id_out_of_range", "invalid_user_lexicon_rejected_right_id_out_of_range",
                             "invalid_user_lexicon_rejected_too_few_columns", "mapping_after_the_history", "two_mappings_after_the_history"],
        "assumptions": ["byte identity of images after clear is not required (the property speaks of behaviour)"],
    },
    "C12": {
        "stages": [
            st("main", "rel", [1200, 150000], [25, 400]),
            st("avx2", "avx2", [250, 5000], [20, 300]),
            st("dbgassert", "relda", [250, 4000], [20, 200], shards=8),
        ],
        "rule": "dictionaries meeting the stated precondition (the characters of SPACE - U+0020, U+3000 and in 30% of the cases one of Z - . 2 - "
                "belong to SPACE alone, no character shares SPACE with another category, no surface contains one of them) "
                "with ignore_space on; each sentence is compared with up to 8 re-spaced variants (every space run rewritten to another "
                "non-zero length/composition, leading/trailing runs added or removed): token sequences exactly when the reference optimum "
                "is unique, by optimal cost otherwise; no token contains a space; spaces-only sentences yield nothing; agreement with the "
                "reference skip rule (candidates, membership, optimum); ignore_space(true) without SPACE must be Err; half of the tokenizers are "
                "configured through an option history (opposite values first). "
                "Non-trivial = sentence with a space run and >= 1 token compared with >= 1 variant; distinct = hash of (dictionary, sentence).",
        "required_buckets": ["inner_space_run", "leading_space_run", "trailing_space_run", "spaces_only_sentence",
                             "grouped_unknown_word_next_to_space", "ignore_space_rejected_without_SPACE", "connector_matrix", "connector_raw", "connector_dual",
                             "space_run_longer_than_65535", "space_category_with_non_whitespace_character", "category_with_a_name_resembling_SPACE"],
        "assumptions": [],
    },
    "C05": {
        "stages": [
            st("main", "rel", [300, 30000], [30, 400]),
            st("avx2", "avx2", [60, 250], [30, 400]),
            st("back", "rel", [60, 250], [30, 400]),
            st("dbgassert", "relda", [60, 1000], [20, 200], shards=8),
            st("asan", "asan", [0, 300], [0, 300], thorough_only=True, shards=8),
        ],
        "rule": "case = generated dictionary (matrix/raw/dual, optional user lexicon, optional id mapping) + 0-3 later operations "
                "(load/replace/clear user lexicon, map, write/read) + 10 sentences x 1-2 option settings; oracles: write's return value = bytes "
                "emitted, read(write(D)) succeeds, write(read(write(D))) is byte-identical, all id pairs of the connector agree, tokens agree, "
                "and all of this again after every later operation applied to both; a writer failing after k bytes yields Err and a prefix; "
                "the AVX2 stage reads the images written by the portable stage (and a second portable stage those written by the AVX2 "
                "stage): readable, re-written byte-identically, token-for-token the same results. Distinct = hash of (image, later operations).",
        "required_buckets": ["connector_matrix", "connector_raw", "connector_dual", "with_user_lexicon", "with_id_mapping", "later_load_user",
                             "later_clear", "later_map", "later_write_read", "failing_writer_yields_err_and_prefix", "image_read_through_chunked_reader",
                             "foreign_image_read_rewritten_and_tokenized_identically", "image_followed_by_user_lexicon_in_one_stream", "char_def_assigns_U+0000", "feature_string_of_65536_bytes_or_more", "image_written_through_short_write_sink"],
        "assumptions": ["images are compared between a portable and an AVX2 build made by the same compiler on this machine"],
    },
    "C07": {
        "stages": [
            st("main", "rel", [600, 60000], [30, 400]),
            st("avx2", "avx2", [600, 60000], [30, 400]),
            st("dbgassert", "relda", [100, 2000], [20, 200], shards=8),
            st("miri", "miri", [25, 200], [240, 900], shards=4, watchdog_factor=3, concurrent=True),
            st("miri-avx2", "miri-avx2", [25, 200], [240, 900], shards=4, watchdog_factor=3, concurrent=True),
            st("valgrind", "avx2", [0, 60], [0, 600], thorough_only=True, shards=8, watchdog_factor=6,
               wrap=["valgrind", "--error-exitcode=97", "--quiet"]),
            st("asan", "asan", [0, 600], [0, 300], thorough_only=True, shards=8),
        ],
        "rule": "model level: random bigram models (1-20 templates incl. <8, 8, 9, 16, 19; ragged rows; strings shared across positions and "
                "sides; quoted cells; entries for the empty feature on one or both sides; |cost| <= 32767/K so every partial sum fits i16) -> raw "
                "and dual dictionaries; every id pair incl. row/column 0 is compared with the defining sum, read black-box through two-token "
                "probe sentences, and raw/dual/materialised-matrix tokenize identically. scorer level: all key sets of size <= 3 (+ sampled "
                "size 4) over a 5x5 key universe and random large sparse sets; every probe pair incl. never-inserted keys, 0 and the padding id, "
                "8 per call, plus 16/24-lane rows. Portable and AVX2 builds run the same seeds; Miri interprets the scorer in both. "
                "Distinct = hash of the model / key set.",
        "required_buckets": ["templates_lt8", "templates_eq8", "templates_gt8_not_multiple", "templates_multiple_of_8", "ragged_rows",
                             "cost_entry_for_empty_empty", "cost_entry_with_one_empty_side", "quoted_feature_cells",
                             "cell_read_through_probe_sentence", "scorer_small_scope_enumerated", "scorer_random_key_sets",
                             "connector_compared_after_write_read", "connector_compared_after_id_mapping", "witness_dual_presum_exactly_i16_min_ok", "witness_raw_connector_id_65535_ok"],
        "assumptions": ["bigram.cost never names the feature '*' and feature strings contain no '/' or tab (the file format cannot express them)",
                        "the generator bounds costs so that the dual connector's stated precondition (pre-summed part fits 16 bits) always holds"],
    },
    "C09": {
        "stages": [
            st("main", "rel", [4, 10], [240, 900], watchdog_factor=2),
            st("dbgassert", "relda", [1, 3], [120, 400], shards=4, watchdog_factor=2),
            st("avx2", "avx2", [0, 7], [0, 900], thorough_only=True, watchdog_factor=2),
            st("asan", "asan", [0, 3], [0, 600], thorough_only=True, watchdog_factor=2),
        ],
        "rule": "fault enumeration: for one image per connector kind (matrix, raw, dual; thorough adds images with user lexicon + id mapping "
                "and the AVX2 build) EVERY strict prefix length k in 0..len is fed to Dictionary::read (lengths split over 16 shards): Err "
                "required, a panic or Ok is a violation. Plus: the full image and 60 prefixes through readers delivering 1 byte / random chunks / "
                "spurious Interrupted; a hard I/O error at a random offset; a writer failing after k bytes (Err + strict prefix); all 21x255 "
                "single-byte corruptions of the magic, every shorter header, older/foreign headers (also through 1-byte and short-first-chunk "
                "readers). A fourth image with more than 65536 unknown-word entries (~1 MB) is cut at a SAMPLE of lengths (first 2048, last "
                "8192, every ~2500th): that image is not enumerated exhaustively. ASan (thorough) re-runs a stride sample. "
                "Distinct = (image, shard residue class).",
        "required_buckets": ["every_prefix_of_image_enumerated", "image_matrix_connector", "image_raw_connector", "image_dual_connector",
                             "all_single_byte_header_corruptions", "reader_1_byte_per_call_ok", "reader_spurious_interrupted_ok",
                             "io_error_surfaced_as_err", "interrupted_write_is_err_and_strict_prefix", "reader_short_first_chunk_ok",
                             "image_more_than_65536_unknown-word_entries"],
        "exhaustive_bucket": "every_prefix_of_image_enumerated",
        "exhaustive_scope": "all strict prefixes (truncation points) of the images enumerated in this run; the images themselves are sampled",
        "assumptions": ["arbitrary corruption (as opposed to truncation and a foreign header) is outside C09"],
    },
    "C11": {
        "stages": [
            st("main", "rel", [4000, 500000], [25, 400]),
            st("dbgassert", "relda", [800, 10000], [20, 200], shards=8),
        ],
        "rule": "random lexicon CSVs (system and user side): surfaces with commas, quotes, spaces, 1-4-byte text, duplicates and prefixes of "
                "others, empty surfaces; random per-field quoting; feature text from empty to 40 columns with quoted cells, doubled quotes and "
                "empty cells; blank lines; with/without final newline. Oracles from the generator's rows (never from parsing the text): "
                "word_feature(i) byte for byte in row order, no extra word, and for every distinct surface the lattice nodes at position 0 = "
                "the rows with that surface (row index, ids, cost). Distinct = hash of the CSV text.",
        "required_buckets": ["homographs", "empty_surface_row_skipped", "no_final_newline", "file_ends_after_fourth_comma",
                             "surface_with_comma_or_quote", "quoted_feature_cell", "empty_feature", "system_lexicon", "user_lexicon", "same_rows_as_system_and_user_lexicon", "256_or_more_homographs_of_one_surface", "user_lexicon_replaces_an_installed_one"],
        "assumptions": ["well-formed = \\n line ends, no BOM, no NUL, no line feed inside a quoted cell (a carriage return there is data), fields < 4096 bytes",
                        "a lexicon in which no row has a surface may be rejected with an error"],
    },
    "C13": {
        "stages": [
            st("main", "rel", [1500, 150000], [25, 400]),
            st("dbgassert", "relda", [300, 5000], [20, 200], shards=8),
            st("cli", "rel", [3, 60], [60, 400], needs_cli=True),
        ],
        "rule": "case = generated dictionary + a history of 0-14 lines (empty lines, empty first line, repeated lines, trailing spaces under "
                "ignore_space) fed to reset_sentence/tokenize/update_connid_counts on one worker; oracles: both id lists are permutations of "
                "1..n-1, ordered by (frequency desc, id asc) where frequency is an independent recount of connection-cost evaluations on the "
                "reference lattice, probability = count/total with the same float expression, the CostEval event log is cross-checked against "
                "the recount, the listed order is accepted by map_connection_ids_from_iter and the mapped dictionary tokenizes identically. "
                "Stage cli: the REAL binaries compile -> reorder (stdin lines incl. empty ones) -> map -> tokenize -O detail; the .lmap/.rmap "
                "files list the ids in the library's order, map accepts them, and the mapped dictionary's output equals the original's. "
                "Distinct = hash of (dictionary, history).",
        "required_buckets": ["empty_line_in_history", "empty_first_line", "no_line_at_all", "repeated_line", "trailing_spaces_with_ignore_space",
                             "frequency_ties", "reorder_output_accepted_by_map", "cost_eval_events_equal_recount", "large_id_space_with_ties",
                             "cli_pipeline_compile_reorder_map_tokenize", "cli_reorder_input_with_empty_line", "witness_65536_right_ids_mapped_ok"],
        "assumptions": ["with ignore_space the histories use dictionaries meeting C12's precondition (where the skip rule is unambiguous)"],
    },
    "C10": {
        "stages": [
            st("main", "rel", [1500, 300000], [30, 500]),
            st("dbgassert", "relda", [400, 10000], [25, 300], shards=8),
            st("asan", "asan", [0, 1500], [0, 300], thorough_only=True, shards=8),
        ],
        "rule": "case = a valid file set (generated dictionary of any connector kind, or the bundled resources) with ONE structure-aware edit of "
                "ONE file (lex.csv, char.def, unk.def, matrix.def, bigram.right/left/cost, user.csv): line dropped/duplicated/swapped, field "
                "dropped/duplicated/replaced by a boundary value or undefined name, file cut at a field boundary or random byte, final newline "
                "toggled, empty/comment-only file, raw byte edits, and char.def specials (18-300 categories, LENGTH 15/16/255, undefined or "
                "commented-out categories on range lines, ranges beyond the BMP). Outcome classifier: a panic of a builder, of the user "
                "lexicon loader or of a mapping call is a violation. For accepted dictionaries: ~40 adversarial strings are tokenized "
                "(no panic, ids within the connector, input covered), and when the strict reference parsers also accept the files the "
                "dictionary must mean what its files say (character table vs reference table incl. the whole BMP on every 20th case, "
                "partition oracle, reference optimum). Distinct = hash of (edit, file set).",
        "required_buckets": ["builder_returned_err", "builder_returned_dictionary", "reference_parsers_accept_too", "reference_parsers_decline",
                             "accepted_dictionary_checked_against_reference_reading", "user_lexicon_rejected", "mapping_sequence_no_panic",
                             "err_char.def", "err_lex.csv", "err_unk.def", "err_matrix.def", "err_bigram.cost", "seed_bundled_resources",
                             "reader_io_error_surfaced_as_err", "two_or_more_accepted_mappings_in_a_row", "user_csv_rejected_on_mapped_dictionary"],
        "assumptions": ["the strict reference parsers accept only a conservative subset of each format; when they decline, only the no-panic and id-range clauses are judged",
                        "out-of-memory aborts caused by absurd declared sizes are reported as process aborts, not silently ignored"],
    },
    "C14": {
        "stages": [
            st("main", "rel", [150, 12000], [60, 500]),
            st("dbgassert", "relda", [30, 300], [40, 300], shards=8),
        ],
        "rule": "case = a random small training configuration (2-5 categories, 3-26 seed rows with quoted cells and homographs, unk.def rows in "
                "shuffled order, 1-4 UNIGRAM and 1-10 BIGRAM templates, 0-3 rewrite rules per section, 1-14 sentences incl. out-of-lexicon "
                "tokens, 3-22 iterations, lambda 0.001-50, optional user lexicon with 0,0,0 and explicit rows) trained with the real "
                "trainer (case 0 of every shard: the bundled resources). The emitted lex.csv / unk.def / matrix.def / user.csv are "
                "re-derived row by row from the hooked model view (merged classes, weights): ids, trunc(-w*32767/max|w|) in either "
                "association order, verbatim features, unk rows grouped in char.def category order, header dimensions, monotonicity "
                "of cost in weight, user rows trained iff 0,0,0; the files must compile and cover the training sentences. "
                "Distinct = hash of the emitted files.",
        "required_buckets": ["training_succeeded", "with_user_lexicon", "user_row_with_trained_parameters", "user_row_copied_unchanged",
                             "non_zero_weights", "all_zero_weight_model", "costs_of_both_signs", "non_square_matrix", "emitted_files_compile",
                             "exported_once_before_user_lexicon", "model_stored_and_read_back_first", "user_row_equals_identical_seed_row"],
        "assumptions": ["the merge of feature weights into connection classes is rucrf's and is trusted here (cross-examined by C16 and C18)"],
    },
    "C15": {
        "stages": [
            st("main", "rel", [150, 12000], [60, 500]),
            st("dbgassert", "relda", [30, 300], [40, 300], shards=8),
            st("cli", "rel", [2, 40], [60, 400], needs_cli=True),
        ],
        "rule": "case = trained model (generator of C14) + an operation sequence chosen by the seed over {generate x2, write_model, read_model, "
                "read_user_lexicon on both sides (before or after a first generation), generate, second write/read}; the seven files "
                "generated from the in-memory model and from the reloaded one are compared byte for byte (bigram.cost as a sorted "
                "multiset); generate twice = once; write_model's count = bytes. Stage cli: the REAL `train` and `dictgen` binaries (zstd model "
                "files on disk, optional user lexicon, --conn-id-info-out) are run twice in separate processes on the same inputs: all seven "
                "files agree between the two runs and with files generated in-process without any write/read. "
                "Distinct = hash of the generated files.",
        "required_buckets": ["training_succeeded", "generated_twice", "in_memory_vs_reloaded_compared", "second_round_trip_compared", "model_read_through_chunked_reader",
                             "user_lexicon_added_after_a_generation", "user_lexicon_added_before_first_generation",
                             "cli_pipeline_train_dictgen_twice", "cli_files_equal_in_process_files", "seed_surface_with_line_break", "model_and_user_lexicon_from_one_stream", "generated_twice_with_user_lexicon", "neighbouring_rows_sharing_a_long_feature_prefix"],
        "assumptions": ["user entries are not part of the stored model (the CLI re-reads them), so user.csv is compared only when both sides read the same user lexicon"],
    },
    "C16": {
        "stages": [
            st("main", "rel", [150, 12000], [60, 500]),
            st("avx2", "avx2", [40, 600], [40, 400], shards=8),
            st("dbgassert", "relda", [30, 300], [40, 300], shards=8),
        ],
        "rule": "case = trained model (generator of C14); lex+matrix.def, lex+bigram files (raw) and the same (dual) are compiled and the "
                "connection cost of EVERY id pair incl. row/column 0 is compared through the cost accessor: |bigram - matrix| <= K+1 "
                "(K = number of BIGRAM templates), same dimensions, lexicon accepted by all three. Distinct = hash of (matrix.def, bigram.cost).",
        "required_buckets": ["training_succeeded", "raw_compared", "dual_compared", "pair_with_id_0_compared", "non_zero_cell_compared",
                             "fewer_than_8_templates", "8_or_more_templates", "bigram_feature_string_longer_than_4096_bytes", "compared_again_after_id_mapping"],
        "assumptions": [],
    },
    "C17": {
        "stages": [
            st("main", "rel", [16, 48], [60, 500]),
            st("dbgassert", "relda", [8, 16], [40, 300], shards=8),
        ],
        "rule": "the real parse_rewrite_config + FeatureRewriter::rewrite (function hook) against a linear-scan reference. Even cases: a slice of "
                "the small scope `all lists of <= 3 rules with patterns of length <= 2 over {*, a, b, (a|b), (a)}` x all 85 feature lists of "
                "length <= 3 over {a, b, c, *}; the scope is partitioned over (shard, case) so that one run enumerates it completely "
                "(27 930 rule lists x 85 lists); every rule has a distinguishable output; the other two sections hold rules that must not "
                "interfere. Other cases: random lists of <= 12 rules, patterns <= 5, outputs mixing text and $n. Thorough adds the medium scope: "
                "all 599 844 lists of <= 3 rules with patterns of length <= 3 x all 341 feature lists of length <= 4 (~2*10^8 evaluations). "
                "Distinct = hash of the rule text.",
        "required_buckets": ["small_scope_slice_enumerated", "random_rule_lists", "some_rule_matched", "no_rule_matched",
                             "later_rule_shares_first_pattern_with_earlier_rule_across_an_intervening_rule", "rules_applied_by_the_trainer_checked"],
        "required_buckets_thorough": ["medium_scope_slice_enumerated"],
        "exhaustive_total": ["rule_lists_in_small_scope", 27930],
        "exhaustive_bucket": "small_scope_slice_enumerated",
        "exhaustive_scope": "rule lists of <= 3 rules with patterns of length <= 2 over {*, a, b, (a|b), (a)} x feature lists of length <= 3 over {a,b,c,*} (27 930 rule lists, count enforced)",
        "assumptions": ["rewrite outputs never use $0 (the rule syntax is 1-origin)"],
    },
    "C18": {
        "stages": [
            st("main", "rel", [400, 30000], [60, 500]),
            st("dbgassert", "relda", [60, 600], [40, 300], shards=8),
            st("cli", "rel", [2, 30], [60, 300], needs_cli=True),
        ],
        "rule": "two thirds of the cases (function hook): random template sets (%F/%L/%R, optional %X?[i], %t, literal prefixes, repeated and "
                "out-of-range indices) over 5-45 interleaved calls with random feature rows incl. short rows; ids returned by the real "
                "extractor vs an independent expander: suppression, equal strings <-> equal ids per side, final tables identical. One "
                "third (dictionary level): a model is trained and, for every seed and unknown word, its %R tuple (right rewrite rules) "
                "and %L tuple (left rewrite rules) are expanded independently: equal tuples => equal left/right id in lex.csv/unk.def, "
                "and every cell of the id's row in bigram.left/right is '*' or the word's expansion. Stage cli: the REAL `train` and `dictgen` "
                "binaries (with --user-lexicon-in and --conn-id-info-out) must emit the files the in-process generation emits. "
                "Distinct = hash of inputs / files.",
        "required_buckets": ["optional_reference_suppressed_template", "string_seen_again_same_id", "short_feature_row", "training_succeeded",
                             "words_sharing_a_connection_class", "listed_feature_equals_expansion", "feature_dropped_by_training_shown_as_star",
                             "with_left_or_right_rewrite_rules", "model_reloaded_before_generation", "user_word_with_trained_ids_checked", "cli_pipeline_with_user_lexicon_and_conn_id_info", "cli_files_equal_in_process_files"],
        "assumptions": ["user-lexicon words are excluded from the `equal tuples share an id` clause (features pruned by training are re-interned for them)"],
    },
    "C19": {
        "stages": [
            st("main", "rel", [1000, 100000], [40, 400], needs_cli=True),
            st("dbgassert", "relda", [200, 2000], [20, 200], shards=8),
        ],
        "rule": "structured corpora (surfaces/features containing EOS, spaces, commas, quotes, multi-byte text; empty sentences) are serialised, "
                "parsed with Corpus::from_reader, written back with Example::write and re-parsed; a malformed line (no tab, >1 tab, blank) "
                "inserted at a random place must yield Err. Every 25th case drives the REAL `compile` and `tokenize` binaries on a generated "
                "dictionary (any connector kind, -S/-M options) with 33 input lines and parses their stdout as a corpus: tokens = the "
                "tokens obtained in-process for the same lines. Distinct = hash of the corpus text / CLI output.",
        "required_buckets": ["sentence_without_tokens_dropped", "token_whose_surface_is_EOS", "malformed_line_rejected", "non_utf8_line_rejected",
                             "tokenizer_cli_output_parsed_as_corpus", "token_of_65536_bytes_or_more", "first_line_starts_with_U+FEFF", "tokenizer_output_accepted_by_trainer", "cli_input_without_final_line_feed", "tokenizer_output_split_into_train_valid_test", "tokenizer_output_evaluated"],
        "assumptions": ["tokenizer inputs and dictionary features contain no tab or line break"],
    },
    "C20": {
        "stages": [
            st("main", "rel", [800, 100000], [30, 400]),
            st("dbgassert", "relda", [200, 2000], [20, 200], shards=8),
        ],
        "rule": "random MeCab model descriptions: 1-6 BIGRAM templates with %L/%R and optional %L?/%R? references, id tables of different sizes "
                "with BOS/EOS at 0, model.def with positive/negative/zero/tiny weights, unmatched, unigram and BOS lines, cost factors "
                "0.5-700. generate_bigram_info's output is compiled (raw and dual) and the cost of EVERY pair of non-zero ids is compared "
                "with an independent evaluator: sum over templates applicable to both of -trunc(w*factor) of the line `Lexp/Rexp`; ids "
                "dense and increasing; a gap, a malformed id line or a non-BOS/EOS id 0 (in either table) must yield Err. "
                "Distinct = hash of the description.",
        "required_buckets": ["non_zero_cost_compared", "optional_template_not_applicable", "id_tables_of_different_sizes",
                             "rejected_gap_among_ids", "rejected_malformed_id_line", "rejected_id_0_not_BOS_EOS", "id_table_lines_not_in_ascending_order", "weights_beyond_16_bits_after_scaling", "more_than_8_templates"],
        "assumptions": ["feature values contain no '/' and id tables start at 0 with BOS/EOS, as MeCab's do; duplicate model lines are not generated"],
    },
}
