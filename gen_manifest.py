#!/usr/bin/env python3
"""Writes MANIFEST.json from checks.py + manifest_text.py (kept in one place so the two never drift)."""
import json, subprocess
from checks import CHECKS, LEVELS
from manifest_text import TEXT, NOT_APPLICABLE

hooks = subprocess.run(["git", "-C", "/repo", "log", "--format=%H %s"], stdout=subprocess.PIPE, text=True).stdout.splitlines()
hook_commits = [l.split()[0] for l in hooks if l.split(" ", 1)[1].startswith("verif hooks")]
m = {
    "version": 1,
    "setup_cmd": "cd /verif && ./run setup",
    "hooks": {
        "guard": "cargo feature `verif` of crate vibrato (off by default; module vibrato/src/verif.rs plus #[cfg(feature = \"verif\")] call sites)",
        "enable": "the harness crate /verif/harness depends on vibrato = { path = \"/repo/vibrato\", features = [\"verif\"] }, so every check rebuilds /repo's working tree with hooks on",
        "baseline_off_cmd": "cd /repo && cargo test --workspace --no-fail-fast --offline",
        "source_commits": hook_commits,
        "add_only": True,
    },
    "engines": [
        {"name": "vharness", "path": "/verif/harness", "serves_properties": sorted(CHECKS),
         "kind_free_text": "Rust harness linking the real crate: seeded workload generators, independent reference MeCab analyser, oracles over tokens / hooked lattice dumps / event logs; built in flavours release, release+debug-assertions+overflow-checks, AVX2, ASan, TSan, Miri"},
        {"name": "run", "path": "/verif/run", "serves_properties": sorted(CHECKS),
         "kind_free_text": "python3 orchestrator: builds flavours from /repo's working tree, shards the harness over 16 processes, attributes aborts/sanitizer reports to cases, merges results, applies KNOWN_FINDINGS.txt, writes evidence"},
    ],
    "checks": [],
    "notes": "Technique family: runtime monitoring and sanitizers. exit 0 = held on what was observed, 1 = VIOLATION line, 2 = inconclusive. See DESIGN.md.",
    "not_applicable": NOT_APPLICABLE + [
        {"property_id": "C%02d" % i, "reason": "check not built yet in this session (work in progress); the runtime-monitoring design for it is in DESIGN.md §3"}
        for i in range(1, 21) if "C%02d" % i not in CHECKS and not any(n["property_id"] == "C%02d" % i for n in NOT_APPLICABLE)],
}
for p in sorted(CHECKS):
    t = TEXT[p]
    m["checks"].append({
        "property_id": p,
        "quick_cmd": "./run %s quick" % p,
        "thorough_cmd": "./run %s thorough" % p,
        "evidence_file": "/verif/evidence/%s.json" % p,
        "replay_cmd_template": "./run replay {path}",
        "engine": "vharness",
        "level_claimed": {"category": LEVELS.get(p, "exploration"), "text": t["level"], "design_ref": "DESIGN.md §3 " + p},
        "level_note": t["note"],
        "technique": t["technique"],
    })
json.dump(m, open("MANIFEST.json", "w"), indent=1, ensure_ascii=False)
print("wrote MANIFEST.json with", len(m["checks"]), "checks")
