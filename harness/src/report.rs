//! Per-shard result collection.
use serde::Serialize;
use serde_json::{json, Value};
use std::collections::{BTreeMap, HashSet};

#[derive(Clone, Copy, PartialEq, Eq, Debug)]
pub enum Tier {
    Quick,
    Thorough,
}

#[derive(Clone, Debug, Serialize)]
pub struct Violation {
    pub property: String,
    pub check: String,
    pub signature: String,
    pub detail: String,
    pub case: Value,
    pub coords: Value,
}

pub struct Ctx {
    pub prop: String,
    pub tier: Tier,
    pub seed: u64,
    pub shard: u64,
    pub nshards: u64,
    pub index: u64,
    pub verbose: bool,
    pub flavour: String,
    pub known: Vec<String>,
    pub evaluations: u64,
    pub hashes: HashSet<u64>,
    pub buckets: BTreeMap<String, u64>,
    pub totals: BTreeMap<String, u64>,
    pub samples: Vec<Value>,
    pub sample_cap: usize,
    pub violations: Vec<Violation>,
    pub known_hits: BTreeMap<String, (u64, String)>,
    pub notes: Vec<String>,
}

impl Ctx {
    pub fn new(prop: &str, tier: Tier, seed: u64, shard: u64, nshards: u64, known: Vec<String>, flavour: &str) -> Ctx {
        Ctx {
            prop: prop.to_string(),
            tier,
            seed,
            shard,
            nshards,
            index: 0,
            verbose: false,
            flavour: flavour.to_string(),
            known,
            evaluations: 0,
            hashes: HashSet::new(),
            buckets: BTreeMap::new(),
            totals: BTreeMap::new(),
            samples: vec![],
            sample_cap: 3,
            violations: vec![],
            known_hits: BTreeMap::new(),
            notes: vec![],
        }
    }
    pub fn thorough(&self) -> bool {
        self.tier == Tier::Thorough
    }
    /// one execution of the real code judged by an oracle
    pub fn eval(&mut self) {
        self.evaluations += 1;
    }
    pub fn evals(&mut self, n: u64) {
        self.evaluations += n;
    }
    /// registers a distinct non-trivial case by content hash
    pub fn distinct(&mut self, h: u64) {
        self.hashes.insert(h);
    }
    pub fn bucket(&mut self, name: &str) {
        *self.buckets.entry(name.to_string()).or_insert(0) += 1;
    }
    pub fn bucket_n(&mut self, name: &str, n: u64) {
        *self.buckets.entry(name.to_string()).or_insert(0) += n;
    }
    pub fn total(&mut self, name: &str, n: u64) {
        *self.totals.entry(name.to_string()).or_insert(0) += n;
    }
    pub fn want_sample(&self) -> bool {
        self.samples.len() < self.sample_cap
    }
    pub fn sample(&mut self, v: Value) {
        if self.samples.len() < self.sample_cap {
            self.samples.push(v);
        }
    }
    pub fn coords(&self) -> Value {
        json!({"property": self.prop, "tier": if self.tier == Tier::Quick {"quick"} else {"thorough"}, "seed": self.seed,
               "shard": self.shard, "nshards": self.nshards, "index": self.index, "flavour": self.flavour})
    }
    /// Reports a refuting observation. `signature` identifies the failure class for the
    /// known-findings file; a violation whose signature is listed there is counted as a
    /// known-finding hit instead.
    pub fn violation(&mut self, check: &str, signature: &str, detail: String, case: Value) {
        if self.verbose {
            eprintln!("VIOLATION-DETAIL check={} signature={} detail={}", check, signature, detail);
        }
        if self.known.iter().any(|k| k == signature) {
            let e = self.known_hits.entry(signature.to_string()).or_insert((0, detail.clone()));
            e.0 += 1;
            return;
        }
        if self.violations.len() < 20 {
            self.violations.push(Violation {
                property: self.prop.clone(),
                check: check.to_string(),
                signature: signature.to_string(),
                detail,
                case,
                coords: self.coords(),
            });
        } else {
            self.total("violations_not_listed", 1);
        }
    }
    pub fn note(&mut self, s: String) {
        if self.notes.len() < 20 {
            self.notes.push(s);
        }
    }
    pub fn to_json(&self, cases_run: u64, wall_s: f64) -> Value {
        let mut hs: Vec<u64> = self.hashes.iter().cloned().collect();
        hs.sort();
        json!({
            "property": self.prop,
            "shard": self.shard,
            "flavour": self.flavour,
            "cases_run": cases_run,
            "evaluations": self.evaluations,
            "hashes": hs.iter().map(|h| format!("{:016x}", h)).collect::<Vec<_>>(),
            "buckets": self.buckets,
            "totals": self.totals,
            "samples": self.samples,
            "violations": self.violations,
            "known_hits": self.known_hits.iter().map(|(k, v)| (k.clone(), json!({"count": v.0, "detail": v.1}))).collect::<BTreeMap<_, _>>(),
            "notes": self.notes,
            "wall_s": wall_s,
        })
    }
}
